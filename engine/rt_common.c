#include "rt_common.h"

MemDev rt_dev ;

void rt_info (SF_INFO *info, const Fmt *f, int ch, int rate)
{	memset (info, 0, sizeof (*info)) ;
	info->format = f->format ; info->channels = ch ; info->samplerate = rate ;
}

void rt_info_read (SF_INFO *info, const Fmt *f, int ch, int rate)
{	memset (info, 0, sizeof (*info)) ;
	if ((f->format & SF_FORMAT_TYPEMASK) == SF_FORMAT_RAW)
	{	info->format = f->format ; info->channels = ch ; info->samplerate = rate ; }
}

int rt_accepts (const Fmt *f, int ch, int rate)
{	SF_INFO info ; rt_info (&info, f, ch, rate) ;
	return sf_format_check (&info) ;
}

const char *rt_chclass (int ch) { return ch == 1 ? "ch1" : ch == 2 ? "ch2" : "chN" ; }

const char *rt_nclass (long N, int B)
{	if (N == 0) return "N0" ;
	if (B <= 1) return "N>0" ;
	if (N < B) return "N<B" ;
	if (N % B == 0) return "N=kB" ;
	return "N=kB+r" ;
}

const char *rt_sig (const char *fmt, ...)
{	static char bufs [4][200] ; static int k ; va_list ap ;
	char *b = bufs [k = (k + 1) & 3] ;
	va_start (ap, fmt) ; vsnprintf (b, 200, fmt, ap) ; va_end (ap) ;
	return b ;
}

void rt_put_i32 (void *buf, int type, long i, int32_t v, const Fmt *f)
{	int width = f->is_float ? 32 : f->width ;
	uint32_t m = (uint32_t) v ;
	if (width > 0 && width < 32) m &= ~((1u << (32 - width)) - 1) ;
	switch (type)
	{	case T_SHORT :
			{	uint32_t s = (uint32_t) v ; int w = (width > 0 && width < 16) ? width : 16 ;
				s &= ~((1u << (32 - w)) - 1) ;
				((short *) buf) [i] = (short) ((int32_t) s >> 16) ;
				}
			break ;
		case T_INT : ((int *) buf) [i] = (int32_t) m ; break ;
		case T_FLOAT : ((float *) buf) [i] = (float) ((double) ((int32_t) m >> 8) / 8388608.0) ; break ;
		case T_DOUBLE : ((double *) buf) [i] = (double) (int32_t) m / 2147483648.0 ; break ;
		}
}

long rt_first_diff (const void *a, const void *b, long items, int type)
{	int sz = type_size [type] ;
	for (long i = 0 ; i < items ; i++)
		if (memcmp ((const char *) a + i * sz, (const char *) b + i * sz, sz) != 0) return i ;
	return -1 ;
}

const char *rt_fmt_item (const void *buf, int type, long i, int slot)
{	static char out [2][64] ; char *o = out [slot & 1] ;
	switch (type)
	{	case T_SHORT : snprintf (o, 64, "%d", ((const short *) buf) [i]) ; break ;
		case T_INT : snprintf (o, 64, "%d", ((const int *) buf) [i]) ; break ;
		case T_FLOAT : snprintf (o, 64, "%a", ((const float *) buf) [i]) ; break ;
		case T_DOUBLE : snprintf (o, 64, "%a", ((const double *) buf) [i]) ; break ;
		}
	return o ;
}

static int add_len (long *lens, int n, long v)
{	if (v < 0) return n ;
	for (int i = 0 ; i < n ; i++) if (lens [i] == v) return n ;
	lens [n] = v ; return n + 1 ;
}

int rt_len_alphabet (long *lens, int B, int staging_items, int ch, int thorough)
{	int n = 0 ; long S = staging_items / ch ;
	n = add_len (lens, n, 0) ; n = add_len (lens, n, 1) ; n = add_len (lens, n, 2) ; n = add_len (lens, n, 3) ;
	if (B > 1)
	{	n = add_len (lens, n, B - 1) ; n = add_len (lens, n, B) ; n = add_len (lens, n, B + 1) ;
		n = add_len (lens, n, 2 * B - 1) ; n = add_len (lens, n, 2 * B) ; n = add_len (lens, n, 2 * B + 1) ;
		n = add_len (lens, n, 2 * B + B / 2 + 1) ;
		}
	else
	{	n = add_len (lens, n, 5) ; n = add_len (lens, n, 7) ; n = add_len (lens, n, 255) ; n = add_len (lens, n, 256) ; n = add_len (lens, n, 257) ; }
	n = add_len (lens, n, S - 1) ; n = add_len (lens, n, S) ; n = add_len (lens, n, S + 1) ;
	if (thorough) { n = add_len (lens, n, 2 * S + 3) ; if (B > 1) n = add_len (lens, n, 3 * B + 2) ; }
	return n ;
}

const char *rt_fam (const Fmt *f)
{	static char b [2][48] ; static int k ; char *o = b [k ^= 1] ;
	snprintf (o, 48, "%s/%s", major_name (f->format), sub_name (f->format)) ;
	return o ;
}

void rt_dump_log (SNDFILE *sf)
{	static char buf [16384] ;
	if (! vl_replaying ()) return ;
	sf_command (sf, SFC_GET_LOG_INFO, buf, sizeof (buf)) ;
	printf ("---- log ----\n%s\n-------------\n", buf) ;
}
