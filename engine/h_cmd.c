/* h_cmd.c - C17: sf_command never touches more than datasize bytes through data, and queries are pure.
** The finite grid command id x handle state x datasize x data kind, enumerated completely under ASan
** with exact-size heap blocks.
*/
#include "vlib.h"
#include "rt_common.h"
#include "sfc_list.h"
#include <stddef.h>

const char *harness_name = "h_cmd" ;

static MemDev dev ;

typedef struct { const char *fmt ; int ch ; } HFmt ;
static const HFmt hfmts [] = { { "wav/pcm_16/file", 2 }, { "wav/float/file", 2 }, { "wavex/pcm_24/file", 2 }, { "rf64/pcm_16/file", 2 }, { "aiff/float/file", 2 },
	{ "aiff/pcm_16/file", 2 }, { "caf/pcm_16/file", 2 }, { "caf/alac_16/file", 2 }, { "raw/pcm_16/file", 1 }, { NULL, 0 } } ;

static const struct { const char *name ; int id ; } extra_cmds [] =
{	{ "SFC_TEST_AIFF_ADD_INST_CHUNK", 0x2000 }, { "SFC_TEST_WAV_ADD_INFO_CHUNK", 0x2010 },
	{ "undefined-0", 0 }, { "undefined-0x0FFF", 0x0FFF }, { "undefined-0x1003", 0x1003 }, { "undefined-0x10FF", 0x10FF }, { "undefined-0x7FFFFFFF", 0x7FFFFFFF }, { "undefined--1", -1 }, { NULL, 0 }
} ;

/* size of the command's own argument (0 = takes none / datasize is the value) */
static int own_size (const char *n)
{	if (strstr (n, "BROADCAST")) return sizeof (SF_BROADCAST_INFO) ;
	if (strstr (n, "CART")) return sizeof (SF_CART_INFO) ;
	if (strstr (n, "INSTRUMENT")) return sizeof (SF_INSTRUMENT) ;
	if (strstr (n, "_CUE")) return strstr (n, "COUNT") ? 4 : sizeof (SF_CUES) ;
	if (strstr (n, "LOOP_INFO")) return sizeof (SF_LOOP_INFO) ;
	if (strstr (n, "EMBED")) return sizeof (SF_EMBED_FILE_INFO) ;
	if (strstr (n, "DITHER")) return sizeof (SF_DITHER_INFO) ;
	if (strstr (n, "FORMAT_INFO") || strstr (n, "SIMPLE_FORMAT") || strstr (n, "FORMAT_MAJOR") || strstr (n, "FORMAT_SUBTYPE")) return strstr (n, "COUNT") ? 4 : sizeof (SF_FORMAT_INFO) ;
	if (strstr (n, "CURRENT_SF_INFO")) return sizeof (SF_INFO) ;
	if (strstr (n, "LIB_VERSION") || strstr (n, "LOG_INFO")) return 64 ;
	if (strstr (n, "SIGNAL_MAX") || strstr (n, "COMPRESSION") || strstr (n, "VBR") || strstr (n, "BYTERATE") == NULL) return 8 ;
	return 8 ;
}

static int is_query (const char *n)
{	return strncmp (n, "SFC_GET_", 8) == 0 || strncmp (n, "SFC_CALC_", 9) == 0 || strcmp (n, "SFC_RAW_DATA_NEEDS_ENDSWAP") == 0 ;
}
static int is_string_cmd (const char *n) { return strcmp (n, "SFC_GET_LIB_VERSION") == 0 || strcmp (n, "SFC_GET_LOG_INFO") == 0 ; }

/* a valid argument image for the command (as far as one exists), for truncation to datasize */
static unsigned char image [70000] ;
static void make_image (const char *n, int ch)
{	memset (image, 0, sizeof (image)) ;
	if (strstr (n, "BROADCAST")) { SF_BROADCAST_INFO *b = (SF_BROADCAST_INFO *) image ; strcpy (b->description, "d") ; b->coding_history_size = 20 ; memcpy (b->coding_history, "A=PCM,F=44100,W=16\r\n", 20) ; }
	else if (strstr (n, "CART")) { SF_CART_INFO *c = (SF_CART_INFO *) image ; memcpy (c->version, "0101", 4) ; strcpy (c->title, "t") ; c->tag_text_size = 12 ; memcpy (c->tag_text, "tag text....", 12) ; }
	else if (strstr (n, "_CUE")) { SF_CUES *q = (SF_CUES *) image ; q->cue_count = 3 ; for (int i = 0 ; i < 3 ; i++) { q->cue_points [i].indx = i + 1 ; q->cue_points [i].sample_offset = i ; q->cue_points [i].fcc_chunk = 0x61746164 ; } }
	else if (strstr (n, "INSTRUMENT")) { SF_INSTRUMENT *in = (SF_INSTRUMENT *) image ; in->gain = 1 ; in->basenote = 60 ; in->key_hi = in->velocity_hi = 127 ; in->loop_count = 1 ; in->loops [0].mode = SF_LOOP_FORWARD ; in->loops [0].end = 5 ; }
	else if (strstr (n, "CHANNEL_MAP")) { int *m = (int *) image ; m [0] = ch == 1 ? SF_CHANNEL_MAP_MONO : SF_CHANNEL_MAP_LEFT ; m [1] = SF_CHANNEL_MAP_RIGHT ; }
	else if (strstr (n, "FORMAT")) { SF_FORMAT_INFO *f = (SF_FORMAT_INFO *) image ; f->format = strstr (n, "FORMAT_INFO") ? (SF_FORMAT_WAV | SF_FORMAT_PCM_16) : 1 ; }
	else if (strstr (n, "COMPRESSION") || strstr (n, "VBR")) { double d = 0.5 ; memcpy (image, &d, 8) ; }
	else if (strstr (n, "TRUNCATE") || strstr (n, "RAW_START")) { sf_count_t v = 2 ; memcpy (image, &v, 8) ; }
	else if (strstr (n, "ORIGINAL_SAMPLERATE") || strstr (n, "BITRATE_MODE")) { int v = 1 ; memcpy (image, &v, 4) ; }
}

static void presets (SNDFILE *sf, int ch)
{	SF_BROADCAST_INFO b ; SF_CART_INFO c ; SF_CUES q ; SF_INSTRUMENT in ; int map [2] = { SF_CHANNEL_MAP_LEFT, SF_CHANNEL_MAP_RIGHT } ;
	make_image ("BROADCAST", ch) ; memcpy (&b, image, sizeof (b)) ; make_image ("CART", ch) ; memcpy (&c, image, sizeof (c)) ;
	make_image ("_CUE", ch) ; memcpy (&q, image, sizeof (q)) ; make_image ("INSTRUMENT", ch) ; memcpy (&in, image, sizeof (in)) ;
	vl_inlib ++ ;
	sf_command (sf, SFC_SET_BROADCAST_INFO, &b, sizeof (b)) ; sf_command (sf, SFC_SET_CART_INFO, &c, sizeof (c)) ; sf_command (sf, SFC_SET_CUE, &q, sizeof (q)) ;
	sf_command (sf, SFC_SET_INSTRUMENT, &in, sizeof (in)) ; if (ch == 2) sf_command (sf, SFC_SET_CHANNEL_MAP_INFO, map, sizeof (map)) ;
	sf_set_string (sf, SF_STR_TITLE, "preset title") ; sf_command (sf, SFC_SET_ADD_PEAK_CHUNK, NULL, SF_TRUE) ;
	vl_inlib -- ;
}

static unsigned char *seed_bytes [2] ; static sf_count_t seed_len [2] ;

static int build_seed (const Fmt *f, int ch, int preset)
{	SF_INFO info ; SNDFILE *sf ; short buf [64] ;
	for (int i = 0 ; i < 64 ; i++) buf [i] = (short) (i * 511) ;
	md_reset (&dev) ; rt_info (&info, f, ch, 44100) ;
	sf = md_open (&dev, SFM_WRITE, &info) ; if (! sf) return 0 ;
	if (preset) presets (sf, ch) ;
	vl_write (sf, T_SHORT, 0, buf, 64) ; INLIB (sf_close (sf)) ;
	free (seed_bytes [preset]) ; seed_len [preset] = dev.len ; seed_bytes [preset] = malloc (dev.len + 1) ; memcpy (seed_bytes [preset], dev.data, dev.len) ;
	return 1 ;
}

static SNDFILE *open_state (const Fmt *f, int ch, int mode, int preset)
{	SF_INFO info ; SNDFILE *sf ;
	if (mode == 0) return NULL ;
	if (mode == SFM_WRITE) { md_reset (&dev) ; rt_info (&info, f, ch, 44100) ; }
	else { md_set (&dev, seed_bytes [preset], seed_len [preset]) ; rt_info_read (&info, f, ch, 44100) ; }
	sf = md_open (&dev, mode, &info) ;
	if (sf && mode == SFM_WRITE && preset) presets (sf, ch) ;
	/* the preset state also has handle settings away from their defaults, each pair of related flags set differently
	** (float normalisation off, double normalisation on; clipping on) so that a command that saves one and restores the other shows */
	if (sf && preset) { vl_inlib ++ ; sf_command (sf, SFC_SET_NORM_FLOAT, NULL, SF_FALSE) ; sf_command (sf, SFC_SET_CLIPPING, NULL, SF_TRUE) ; vl_inlib -- ; }
	return sf ;
}

static int add_size (int *sizes, int n, int v)
{	if (v < 0) return n ;
	for (int i = 0 ; i < n ; i++) if (sizes [i] == v) return n ;
	sizes [n] = v ; return n + 1 ;
}

static void cmd_case (const char *cname, int id, const Fmt *f, int ch, int mode, int preset, int kind)
{	static int sizes [80000] ; int ns = 0, own = own_size (cname), top, query = is_query (cname), strc = is_string_cmd (cname) ; SNDFILE *sf ;
	char rs [96] ; long calls = 0 ;
	static const int others [] = { 4, 8, 24, 32, 64, 272, 864, 2308, 28004, 16992, 18436, 32768, 65536 } ;

	snprintf (rs, sizeof (rs), "%s|%s", cname, mode == 0 ? "null" : mode == SFM_READ ? "read" : mode == SFM_WRITE ? "write" : "rdwr") ;
	top = own ; if (! vl_opts.thorough && top > 600) top = 600 ;
	for (int v = 0 ; v <= top + 8 ; v++) ns = add_size (sizes, ns, v) ;
	ns = add_size (sizes, ns, own - 1) ; ns = add_size (sizes, ns, own) ; ns = add_size (sizes, ns, own + 1) ; ns = add_size (sizes, ns, own + 8) ;
	for (unsigned k = 0 ; k < sizeof (others) / sizeof (others [0]) ; k++) { ns = add_size (sizes, ns, others [k] - 1) ; ns = add_size (sizes, ns, others [k]) ; ns = add_size (sizes, ns, others [k] + 1) ; }
	make_image (cname, ch) ;
	sf = open_state (f, ch, mode, preset) ;
	if (mode != 0 && ! sf) { vl_note ("state not available") ; vl_end (0, 0) ; return ; }
	for (int si = 0 ; si < ns ; si++)
	{	int datasize = sizes [si], r ; unsigned char *data = NULL ; uint64_t meta0 = 0, dev0 = 0 ;
		if (kind > 0)
		{	data = malloc (datasize) ;			/* exact size: touching byte datasize is an ASan report (malloc (0) has no accessible byte) */
			if (kind == 1) memcpy (data, image, datasize < (int) sizeof (image) ? datasize : (int) sizeof (image)) ; else memset (data, 0xFF, datasize) ;
			if (strc && datasize > 0) memset (data, 0xFF, datasize) ;
			}
		if (sf && query) { meta0 = pk_meta_hash (sf) ; dev0 = md_hash (&dev) ; }
		vl_subcase ("C17 call cmd=%s fmt=%s mode=%d preset=%d kind=%d datasize=%d", cname, f ? f->name : "-", mode, preset, kind, datasize) ;
		INLIB (r = sf_command (sf, id, data, datasize)) ;
		calls ++ ;
		if (strc && kind > 0 && datasize >= 1 && memchr (data, 0, datasize) == NULL)
			vl_violation (rt_sig ("%s|no-nul-within-datasize", rs), "datasize %d: no NUL terminator inside the buffer", datasize) ;
		if (sf && query && (pk_meta_hash (sf) != meta0 || md_hash (&dev) != dev0))
			vl_violation (rt_sig ("%s|query-changed-state", rs), "datasize %d (returned %d): positions, settings, metadata or file bytes changed", datasize, r) ;
		free (data) ;
		/* a state-changing command may have invalidated the handle for the purposes of the next size: keep going, the handle stays usable by contract */
		}
	if (sf) INLIB (sf_close (sf)) ;
	vl_count_extra (0, calls) ;
	vl_end (1, calls) ;
}

static int parse_int (const char *s, const char *key) { const char *p = strstr (s, key) ; return p ? atoi (p + strlen (key)) : -1 ; }

void harness_run (void)
{	static const int modes [4] = { 0, SFM_READ, SFM_WRITE, SFM_RDWR } ; const char *rp = vl_opts.replay ;
	fmt_build () ; md_init (&dev) ;
	for (int pass = 0 ; pass < 2 ; pass++)
		for (int ci = 0 ; (pass ? extra_cmds [ci].name : sfc_list [ci].name) != NULL ; ci++)
		{	const char *cname = pass ? extra_cmds [ci].name : sfc_list [ci].name ; int id = pass ? extra_cmds [ci].id : sfc_list [ci].id ;
			for (int fi = 0 ; hfmts [fi].fmt ; fi++)
			{	const Fmt *f = fmt_by_name (hfmts [fi].fmt) ; int ch = hfmts [fi].ch ;
				if (! f) continue ;
				for (int preset = 0 ; preset < 2 ; preset++)
				{	int have_seed = -1 ;
					for (int mi = 0 ; mi < 4 ; mi++)
						for (int kind = 0 ; kind < 3 ; kind++)
						{	if (modes [mi] == 0 && (fi > 0 || preset > 0)) continue ;
							if (rp && strncmp (rp, "C17 call ", 9) == 0)
							{	char pre [300] ; snprintf (pre, sizeof (pre), "C17 call cmd=%s fmt=%s mode=%d preset=%d kind=%d datasize=", cname, modes [mi] ? f->name : "-", modes [mi], preset, kind) ;
								if (strncmp (rp, pre, strlen (pre)) != 0) continue ;
								if (have_seed < 0) have_seed = build_seed (f, ch, preset) ;
								if (vl_case ("%s", rp))
								{	int datasize = parse_int (rp, "datasize=") ; SNDFILE *sf = open_state (f, ch, modes [mi], preset) ; unsigned char *data = NULL ; int r ;
									int query = is_query (cname), strc = is_string_cmd (cname) ; uint64_t meta0 = 0, dev0 = 0 ; char rs [96] ;
									snprintf (rs, sizeof (rs), "%s|%s", cname, modes [mi] == 0 ? "null" : modes [mi] == SFM_READ ? "read" : modes [mi] == SFM_WRITE ? "write" : "rdwr") ;
									make_image (cname, ch) ;
									if (kind > 0) { data = malloc (datasize) ; if (kind == 1) memcpy (data, image, datasize < (int) sizeof (image) ? datasize : (int) sizeof (image)) ; else memset (data, 0xFF, datasize) ; if (strc && datasize > 0) memset (data, 0xFF, datasize) ; }
									if (sf && query) { meta0 = pk_meta_hash (sf) ; dev0 = md_hash (&dev) ; }
									INLIB (r = sf_command (sf, id, data, datasize)) ;
									vl_note ("sf_command returned %d", r) ;
									/* the same oracles as in the grid, so that a replay of one call reproduces its verdict */
									if (strc && kind > 0 && datasize >= 1 && memchr (data, 0, datasize) == NULL)
										vl_violation (rt_sig ("%s|no-nul-within-datasize", rs), "datasize %d: no NUL terminator inside the buffer", datasize) ;
									if (sf && query && (pk_meta_hash (sf) != meta0 || md_hash (&dev) != dev0))
										vl_violation (rt_sig ("%s|query-changed-state", rs), "datasize %d (returned %d): positions, settings, metadata or file bytes changed", datasize, r) ;
									free (data) ; if (sf) INLIB (sf_close (sf)) ;
									vl_end (1, r) ;
									}
								return ;
								}
							if (vl_case ("C17 grid cmd=%s fmt=%s mode=%d preset=%d kind=%d", cname, modes [mi] ? f->name : "-", modes [mi], preset, kind))
							{	if (have_seed < 0) have_seed = build_seed (f, ch, preset) ;
								vl_root_count (cname) ;
								if (! have_seed) { vl_end (0, 0) ; continue ; }
								cmd_case (cname, id, modes [mi] ? f : NULL, ch, modes [mi], preset, kind) ;
								}
							else if (have_seed < 0 && ! rp) have_seed = -1 ;
							}
					}
				}
			}
}
