/* sysio.c - link-time wrapped libc: pinned clock, allocation accounting, descriptor accounting and
** descriptor-route fault injection.  Linked with -Wl,--wrap=<sym> for every symbol below.
*/
#define _GNU_SOURCE
#include "vlib.h"
#include <unistd.h>
#include <fcntl.h>
#include <errno.h>
#include <time.h>
#include <dirent.h>
#include <sys/time.h>
#include <sys/stat.h>
#include <sys/mman.h>
#include <sys/syscall.h>

/* ------------------------------------------------------------------ clock */

time_t __wrap_time (time_t *t)
{	if (t) *t = 1000000000 ;
	return 1000000000 ;
}

int __wrap_gettimeofday (struct timeval *tv, void *tz)
{	(void) tz ;
	if (tv) { tv->tv_sec = 1000000000 ; tv->tv_usec = 0 ; }
	return 0 ;
}

/* ------------------------------------------------------------------ allocation table */

void *__real_malloc (size_t) ;
void *__real_calloc (size_t, size_t) ;
void *__real_realloc (void *, size_t) ;
void  __real_free (void *) ;

#define AT_BITS	16
#define AT_SIZE	(1 << AT_BITS)
static struct { void *p ; size_t n ; } at_tab [AT_SIZE] ;
static long at_live, at_bytes ;
#define TOMB ((void *) 1)

static inline size_t at_slot (void *p) { return (((uintptr_t) p >> 4) * 0x9E3779B97F4A7C15ULL) >> (64 - AT_BITS) ; }

static void at_add (void *p, size_t n)
{	size_t i = at_slot (p) ;
	for (int k = 0 ; k < AT_SIZE ; k++, i = (i + 1) & (AT_SIZE - 1))
		if (at_tab [i].p == NULL || at_tab [i].p == TOMB)
		{	at_tab [i].p = p ; at_tab [i].n = n ; at_live ++ ; at_bytes += n ; return ; }
}

static int at_del (void *p)
{	size_t i = at_slot (p) ;
	if (at_live == 0) return 0 ;
	for (int k = 0 ; k < AT_SIZE ; k++, i = (i + 1) & (AT_SIZE - 1))
	{	if (at_tab [i].p == NULL) return 0 ;
		if (at_tab [i].p == p) { at_tab [i].p = TOMB ; at_live -- ; at_bytes -= at_tab [i].n ; return 1 ; }
		}
	return 0 ;
}

void *__wrap_malloc (size_t n)
{	void *p = __real_malloc (n) ;
	if (p && vl_inlib) at_add (p, n) ;
	return p ;
}

void *__wrap_calloc (size_t a, size_t b)
{	void *p = __real_calloc (a, b) ;
	if (p && vl_inlib) at_add (p, a * b) ;
	return p ;
}

void *__wrap_realloc (void *old, size_t n)
{	int was = old ? at_del (old) : 0 ;
	void *p = __real_realloc (old, n) ;
	if (p == NULL && n != 0)
	{	if (was) at_add (old, 0) ;
		return NULL ;
		}
	if (p && (was || vl_inlib)) at_add (p, n) ;
	return p ;
}

void __wrap_free (void *p)
{	if (p) at_del (p) ;
	__real_free (p) ;
}

long sio_live_blocks (void) { return at_live ; }
long sio_live_bytes (void) { return at_bytes ; }
void sio_reset_alloc (void) { memset (at_tab, 0, sizeof (at_tab)) ; at_live = at_bytes = 0 ; }
const char *sio_first_live (void)
{	static char buf [64] ;
	for (int i = 0 ; i < AT_SIZE ; i++)
		if (at_tab [i].p && at_tab [i].p != TOMB) { snprintf (buf, sizeof (buf), "%zu bytes", at_tab [i].n) ; return buf ; }
	return "none" ;
}

/* ------------------------------------------------------------------ descriptors */

int     __real_open (const char *, int, ...) ;
int     __real_close (int) ;
ssize_t __real_read (int, void *, size_t) ;
ssize_t __real_write (int, const void *, size_t) ;
off_t   __real_lseek (int, off_t, int) ;
int     __real_fstat (int, struct stat *) ;
int     __real_ftruncate (int, off_t) ;
int     __real_fsync (int) ;

#define MAXFD 1024
static unsigned char lib_fd [MAXFD] ;		/* 1 = opened by the library and still open */
static unsigned char watch_fd [MAXFD] ;		/* 1 = harness fd being watched, 2 = closed by the library */
static long lib_fds ;
static SioFaultFn sio_fault ; static void *sio_fault_user ;
long sio_ncalls ;

void sio_set_fault (SioFaultFn fn, void *user) { sio_fault = fn ; sio_fault_user = user ; sio_ncalls = 0 ; }
long sio_lib_fds_open (void) { return lib_fds ; }
void sio_reset_fds (void) { memset (lib_fd, 0, sizeof (lib_fd)) ; memset (watch_fd, 0, sizeof (watch_fd)) ; lib_fds = 0 ; }
void sio_track_close_of (int fd) { if (fd >= 0 && fd < MAXFD) watch_fd [fd] = 1 ; }
int  sio_was_closed_by_lib (int fd) { return fd >= 0 && fd < MAXFD && watch_fd [fd] == 2 ; }

int __wrap_open (const char *path, int flags, ...)
{	int mode = 0, fd ;
	if (flags & (O_CREAT | O_TMPFILE))
	{	va_list ap ; va_start (ap, flags) ; mode = va_arg (ap, int) ; va_end (ap) ; }
	if (vl_inlib && sio_fault)
	{	sf_count_t ans = 0 ; int err = 0 ;
		sio_ncalls ++ ;
		if (sio_fault (SIO_OPEN, -1, 0, &ans, &err, sio_fault_user)) { errno = err ; return -1 ; }
		}
	fd = __real_open (path, flags, mode) ;
	if (fd >= 0 && fd < MAXFD && vl_inlib) { lib_fd [fd] = 1 ; lib_fds ++ ; }
	return fd ;
}

int __wrap_close (int fd)
{	if (fd >= 0 && fd < MAXFD)
	{	if (lib_fd [fd]) { lib_fd [fd] = 0 ; lib_fds -- ; }
		if (vl_inlib && watch_fd [fd] == 1) watch_fd [fd] = 2 ;
		}
	return __real_close (fd) ;
}

#define FAULT(kind, req) \
	if (vl_inlib && sio_fault) \
	{	sf_count_t ans = 0 ; int err = 0 ; \
		sio_ncalls ++ ; \
		if (sio_fault (kind, fd, req, &ans, &err, sio_fault_user)) \
		{	if (ans < 0) { errno = err ; return -1 ; } \
			limit = ans ; \
			} \
		}

ssize_t __wrap_read (int fd, void *p, size_t n)
{	sf_count_t limit = -1 ;
	FAULT (MD_READ, n) ;
	if (limit >= 0 && (size_t) limit < n) n = limit ;
	if (limit == 0) return 0 ;
	return __real_read (fd, p, n) ;
}

ssize_t __wrap_write (int fd, const void *p, size_t n)
{	sf_count_t limit = -1 ;
	FAULT (MD_WRITE, n) ;
	if (limit >= 0 && (size_t) limit < n) n = limit ;
	if (limit == 0) return 0 ;
	return __real_write (fd, p, n) ;
}

off_t __wrap_lseek (int fd, off_t off, int whence)
{	sf_count_t limit = -1 ;
	FAULT (MD_SEEK, off) ;
	(void) limit ;
	return __real_lseek (fd, off, whence) ;
}

int __wrap_fstat (int fd, struct stat *st)
{	sf_count_t limit = -1 ; int r ;
	FAULT (MD_LEN, 0) ;
	r = __real_fstat (fd, st) ;
	if (r == 0 && limit >= 0) st->st_size = limit ;
	return r ;
}

int __wrap_ftruncate (int fd, off_t len) { return __real_ftruncate (fd, len) ; }
int __wrap_fsync (int fd) { return __real_fsync (fd) ; }

/* ------------------------------------------------------------------ stdio (the library's ALAC temporary file) */

FILE  *__real_fopen (const char *, const char *) ;
int    __real_fclose (FILE *) ;
size_t __real_fwrite (const void *, size_t, size_t, FILE *) ;
size_t __real_fread (void *, size_t, size_t, FILE *) ;
static long lib_files ;
long sio_lib_files_open (void) { return lib_files ; }
void sio_reset_files (void) { lib_files = 0 ; }

FILE *__wrap_fopen (const char *path, const char *mode)
{	FILE *f ;
	if (vl_inlib && sio_fault)
	{	sf_count_t ans = 0 ; int err = 0 ;
		sio_ncalls ++ ;
		if (sio_fault (SIO_FOPEN, -1, 0, &ans, &err, sio_fault_user)) { errno = err ; return NULL ; }
		}
	f = __real_fopen (path, mode) ;
	if (f && vl_inlib) lib_files ++ ;
	return f ;
}

int __wrap_fclose (FILE *f)
{	if (vl_inlib && lib_files > 0) lib_files -- ;
	return __real_fclose (f) ;
}

size_t __wrap_fwrite (const void *p, size_t sz, size_t n, FILE *f)
{	if (vl_inlib && sio_fault && f != stdout && f != stderr)
	{	sf_count_t ans = 0 ; int err = 0 ;
		sio_ncalls ++ ;
		if (sio_fault (SIO_FWRITE, -1, (sf_count_t) (sz * n), &ans, &err, sio_fault_user))
		{	if (ans < 0) { errno = err ; return 0 ; }
			if (sz && (size_t) ans / sz < n) n = (size_t) ans / sz ;
			if (n == 0) return 0 ;
			return __real_fwrite (p, sz, n, f) ;
			}
		}
	return __real_fwrite (p, sz, n, f) ;
}

size_t __wrap_fread (void *p, size_t sz, size_t n, FILE *f)
{	if (vl_inlib && sio_fault)
	{	sf_count_t ans = 0 ; int err = 0 ;
		sio_ncalls ++ ;
		if (sio_fault (SIO_FREAD, -1, (sf_count_t) (sz * n), &ans, &err, sio_fault_user))
		{	if (ans < 0) { errno = err ; return 0 ; }
			if (sz && (size_t) ans / sz < n) n = (size_t) ans / sz ;
			if (n == 0) return 0 ;
			}
		}
	return __real_fread (p, sz, n, f) ;
}

int  sio_memfd (const char *name) { return (int) syscall (SYS_memfd_create, name, 0) ; }
int  sio_real_close (int fd) { return __real_close (fd) ; }
long sio_real_read (int fd, void *p, size_t n) { return __real_read (fd, p, n) ; }
long sio_real_write (int fd, const void *p, size_t n) { return __real_write (fd, p, n) ; }
long sio_real_lseek (int fd, long off, int whence) { return __real_lseek (fd, off, whence) ; }
int  sio_real_open (const char *path, int flags, int mode) { return __real_open (path, flags, mode) ; }
int  sio_real_ftruncate (int fd, long len) { return __real_ftruncate (fd, len) ; }
int  sio_fd_is_open (int fd) { return fcntl (fd, F_GETFD) != -1 ; }

int sio_fd_count (void)
{	DIR *d = opendir ("/proc/self/fd") ; int n = 0 ;
	if (! d) return -1 ;
	while (readdir (d)) n ++ ;
	closedir (d) ;
	return n - 3 ;	/* ".", "..", and the DIR's own descriptor */
}
