/* ref.h - reference models (independent of libsndfile sources) */
#ifndef REF_H
#define REF_H
#include <stdint.h>
#include <math.h>

short  ref_int_to_short (int w, int32_t v) ;
int    ref_int_to_int (int w, int32_t v) ;
float  ref_int_to_float (int w, int32_t v, int norm) ;
double ref_int_to_double (int w, int32_t v, int norm) ;
int32_t ref_short_to_int (int w, short s) ;
int32_t ref_int_to_stored (int w, int i) ;
int64_t ref_float_to_int (int w, float x, int norm, int *in_range) ;
int64_t ref_double_to_int (int w, double x, int norm, int *in_range) ;
void ref_float_to_int_clip (int w, float x, int norm, int64_t *lo, int64_t *hi) ;
void ref_double_to_int_clip (int w, double x, int norm, int64_t *lo, int64_t *hi) ;

/* ITU-T G.711, 16-bit linear scale, sign-magnitude */
int ref_ulaw_decode (unsigned code) ;
int ref_alaw_decode (unsigned code) ;
unsigned ref_ulaw_encode (int s16) ;
unsigned ref_alaw_encode (int s16) ;

/* ADPCM reference decoders: decode one block into out (interleaved), return samples per channel */
int ref_ima_wav_decode_block (const unsigned char *blk, int blocksize, int channels, short *out, int max_frames) ;
int ref_ima_aiff_decode_block (const unsigned char *blk, int channels, short *out) ;	/* 34 bytes per channel, 64 frames */
int ref_ms_adpcm_decode_block (const unsigned char *blk, int blocksize, int channels, const short coeffs [][2], int ncoeffs, short *out, int max_frames) ;
#endif
