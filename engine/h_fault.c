/* h_fault.c - C15 (I/O failures at any point are contained) and C16 (no leaked memory, descriptors or
** temporary files for any call history). Complete single-fault enumeration over the callbacks of
** fixed workloads on the in-memory device (thorough: all pairs of single-shot faults), plus
** allocating call histories for C16.
*/
#define _GNU_SOURCE
#include "vlib.h"
#include "rt_common.h"
#include "hostile_core.h"
#include <unistd.h>
#include <dirent.h>
#include <errno.h>
#include <fcntl.h>
#include <sys/stat.h>

const char *harness_name = "h_fault" ;

static int is_c16, mute ;	/* mute: the fault-free logging run every shard needs must not report (it has a case of its own) */
static MemDev dev ;

static const char *rep_formats [] =
{	"wav/pcm_16/file", "wav/pcm_24/file", "wav/float/file", "wav/ulaw/file", "wav/ima_adpcm/file", "wav/ms_adpcm/file", "wav/gsm610/file", "wav/g721_32/file", "wav/nms_16/file",
	"aiff/pcm_16/file", "aiff/double/file", "aiff/ima_adpcm/file", "aiff/gsm610/file", "aiff/dwvw_16/file", "au/pcm_32/file", "au/g723_24/file", "au/alaw/file",
	"caf/pcm_16/file", "caf/alac_16/file", "caf/alac_24/file", "caf/float/file", "w64/pcm_16/file", "w64/ima_adpcm/file", "rf64/pcm_24/file", "wavex/double/file",
	"raw/pcm_16/le", "raw/vox_adpcm/file", "raw/gsm610/file", "raw/dwvw_24/file", "raw/nms_32/file", "paf/pcm_24/file", "paf/pcm_16/file", "svx/pcm_16/file", "nist/pcm_16/file",
	"voc/pcm_u8/file", "voc/alaw/file", "ircam/float/file", "mat4/double/file", "mat5/pcm_32/file", "pvf/pcm_16/file", "xi/dpcm_16/file", "htk/pcm_16/file", "sds/pcm_16/file",
	"avr/pcm_16/file", "wve/alaw/file", "mpc2k/pcm_16/file", "au/ulaw/file", "sd2/pcm_16/file", NULL
} ;

/* ---------------------------------------------------------------- fault plan */

enum { F_ZERO = 0, F_HALF, F_MINUS1, F_SEEKFAIL, F_SEEKWRONG, F_TELLFAIL, F_LEN_M1, F_LEN_P1, F_LEN_0, F_LEN_BIG, F_LEN_NEG, F_NFAULTS } ;
static const char *fault_names [F_NFAULTS] = { "zero-bytes", "half", "one-short", "seek-fails", "seek-wrong-offset", "tell-fails", "len-1", "len+1", "len=0", "len=2^40", "len=-1" } ;

static int applies (int fault, int kind)
{	switch (kind)
	{	case MD_READ : case MD_WRITE : return fault <= F_MINUS1 ;
		case MD_SEEK : return fault == F_SEEKFAIL || fault == F_SEEKWRONG ;
		case MD_TELL : return fault == F_TELLFAIL ;
		default : return fault >= F_LEN_M1 ;
		}
}

typedef struct { long at [2] ; int fault [2] ; int persistent ; int nfaults ; int kind0 ; long first_fault_ncb ; sf_count_t len_at_fault ; } Plan ;
static Plan plan ;
static long faults_delivered ;	/* answers changed so far in this execution */
static int  device_lied ;		/* a fault after which the device and its answers disagree (moved but reported elsewhere, wrong length) was delivered */

static int fault_answer (MemDev *md, int fault, sf_count_t requested, sf_count_t *answer)
{	switch (fault)
	{	case F_ZERO : *answer = 0 ; break ;
		case F_HALF : *answer = requested / 2 ; break ;
		case F_MINUS1 : *answer = requested > 0 ? requested - 1 : 0 ; break ;
		case F_SEEKFAIL : *answer = -1 ; break ;
		case F_SEEKWRONG : *answer = -2 ; break ;
		case F_TELLFAIL : *answer = -1 ; break ;
		case F_LEN_M1 : *answer = md->len > 0 ? md->len - 1 : 0 ; break ;
		case F_LEN_P1 : *answer = md->len + 1 ; break ;
		case F_LEN_0 : *answer = 0 ; break ;
		case F_LEN_BIG : *answer = (sf_count_t) 1 << 40 ; break ;
		default : *answer = -1 ; break ;
		}
	return 1 ;
}

/* what the device held when the first fault hit (virtual-I/O route): the "accepted" bytes of the containment clause */
static unsigned char *fault_snap ; static sf_count_t fault_snap_len ; static int nontransfer_fault ;
static void mark_first_fault (MemDev *md, long idx)
{	plan.first_fault_ncb = idx ; plan.len_at_fault = md->len ;
	free (fault_snap) ; fault_snap = malloc (md->len + 1) ; fault_snap_len = md->len < md->pos ? md->len : md->pos ;	/* bytes in front of the faulted transfer: what lies behind its start the transfer itself was about to replace */
	 if (md->len > 0) memcpy (fault_snap, md->data, md->len) ;
}

static int fault_hook (MemDev *md, int kind, sf_count_t requested, sf_count_t *answer, void *user)
{	long idx = md->ncb + 1 ;	/* 1-based index of the callback being answered */
	(void) user ;
	if (plan.persistent == 2)	/* the device dies at call plan.at [0]: from then on nothing is transferred, seek and tell fail, the length stays */
	{	if (idx < plan.at [0] || kind == MD_LEN) return 0 ;
		if (plan.first_fault_ncb == 0) mark_first_fault (md, idx) ;
		faults_delivered ++ ; if (kind != MD_WRITE) nontransfer_fault = 1 ;
		*answer = (kind == MD_READ || kind == MD_WRITE) ? 0 : -1 ; (void) requested ;
		return 1 ;
		}
	for (int k = 0 ; k < plan.nfaults ; k++)
	{	int hit = plan.persistent ? (idx >= plan.at [k] && kind == plan.kind0) : idx == plan.at [k] ;
		if (hit && applies (plan.fault [k], kind))
		{	if (plan.first_fault_ncb == 0) mark_first_fault (md, idx) ;
			faults_delivered ++ ; if (plan.fault [k] == F_SEEKWRONG || plan.fault [k] >= F_LEN_M1) device_lied = 1 ;
			if (kind != MD_WRITE || plan.fault [k] > F_MINUS1) nontransfer_fault = 1 ;
			return fault_answer (md, plan.fault [k], requested, answer) ;
			}
		}
	return 0 ;
}

/* ---------------------------------------------------------------- oracles */

static const Fmt *F ; static int CH, B ; static char RS [96] ;
static int private_tmp_count (void)
{	const char *t = getenv ("TMPDIR") ; DIR *d ; struct dirent *e ; int n = 0 ;
	if (! t || ! (d = opendir (t))) return 0 ;
	while ((e = readdir (d))) if (strcmp (e->d_name, ".") && strcmp (e->d_name, "..") && strcmp (e->d_name, "scratch")) n ++ ;
	closedir (d) ; return n ;
}

static void private_tmp_clean (void)	/* so that a stray file is reported by the execution that made it and by no other */
{	const char *t = getenv ("TMPDIR") ; DIR *d ; struct dirent *e ; char pth [900] ;
	if (! t || ! (d = opendir (t))) return ;
	while ((e = readdir (d))) if (strcmp (e->d_name, ".") && strcmp (e->d_name, "..") && strcmp (e->d_name, "scratch")) { snprintf (pth, sizeof (pth), "%s/%s", t, e->d_name) ; unlink (pth) ; }
	closedir (d) ;
}

static uint64_t thash ;	/* transcript of every checked call's return value and position */
#define TH(v) (thash = vl_hash_u64 ((uint64_t) (v), thash))

#define V15(sig, ...) do { if (! is_c16 && ! mute) vl_violation (rt_sig ("%s|" sig, RS), __VA_ARGS__) ; } while (0)
#define V16(sig, ...) do { if (is_c16 && ! mute) vl_violation (rt_sig ("%s|" sig, RS), __VA_ARGS__) ; } while (0)

static int fd_baseline = -1 ;
/* resource release: C16 for every history; C15 says "sf_close still releases every resource" / "a failing sf_open ... releases everything"
** for histories in which the I/O failed, so there it is reported under C15 as well */
#define VRES(sig, ...) do { if (! mute && (is_c16 || faults_delivered > 0)) vl_violation (rt_sig ("%s|" sig, RS), __VA_ARGS__) ; } while (0)
static void after_close_checks (int close_rc, int device_close_failed, const char *what)
{	if (sio_live_blocks () != 0) VRES ("leak-memory", "%s: %ld blocks (%ld bytes) obtained by the library are still allocated (first: %s)", what, sio_live_blocks (), sio_live_bytes (), sio_first_live ()) ;
	if (sio_lib_fds_open () != 0) VRES ("leak-descriptor", "%s: %ld descriptors opened by the library are still open", what, sio_lib_fds_open ()) ;
	if (sio_lib_files_open () != 0) VRES ("leak-stream", "%s: %ld stdio streams opened by the library are still open", what, sio_lib_files_open ()) ;
	if (fd_baseline >= 0 && sio_fd_count () != fd_baseline) VRES ("leak-descriptor-table", "%s: the process has %d open descriptors, %d before the history", what, sio_fd_count (), fd_baseline) ;
	if (private_tmp_count () != 0) { VRES ("leak-tempfile", "%s: %d files left in the private temporary / working directory", what, private_tmp_count ()) ; private_tmp_clean () ; }
	if (close_rc != 0 && ! device_close_failed && plan.nfaults == 0) V16 ("close-nonzero", "%s: sf_close returned %d although no I/O failed", what, close_rc) ;
}

static void begin_history (void) { sio_reset_alloc () ; sio_reset_fds () ; sio_reset_files () ; plan.first_fault_ncb = 0 ; plan.len_at_fault = 0 ; faults_delivered = 0 ; device_lied = 0 ; nontransfer_fault = 0 ; thash = 0 ; fd_baseline = sio_fd_count () ; }

/* checked typed calls */
static void chk_write (SNDFILE *sf, const short *buf, long k, long *pos)
{	sf_count_t w = vl_write (sf, T_SHORT, 1, buf, k) ; PeekState pk ;
	if (w < 0 || w > k) V15 ("write-return-range", "write of %ld frames returned %lld", k, (long long) w) ;
	pk_get (sf, &pk, 0) ;
	if (w >= 0 && w <= k && pk.write_current != *pos + w) V15 ("write-position-advance", "write position %lld after accepting %lld frames at %ld", (long long) pk.write_current, (long long) w, *pos) ;
	if (w > 0) *pos += w ;
	*pos = pk.write_current ; TH (w) ; TH (*pos) ;
}

static void chk_read (SNDFILE *sf, long k, long *pos)
{	GBuf g ; sf_count_t r ; PeekState pk ;
	gb_new (&g, 32, k * CH * 2, 32, 0x6B) ;
	r = vl_read (sf, T_SHORT, 1, gb_ptr (&g), k) ;
	if (gb_check (&g)) V15 ("read-outside-request", "guard bytes around the read buffer were modified") ;
	if (r < 0 || r > k) V15 ("read-return-range", "read of %ld frames returned %lld", k, (long long) r) ;
	pk_get (sf, &pk, 0) ;
	if (r >= 0 && r <= k && pk.read_current != *pos + r) V15 ("read-position-advance", "read position %lld after delivering %lld frames from %ld", (long long) pk.read_current, (long long) r, *pos) ;
	*pos = pk.read_current ; TH (r) ; TH (*pos) ; if (r > 0 && r <= k) TH (vl_hash (gb_ptr (&g), r * CH * 2, 7)) ;
	gb_free (&g) ;
}

static int seek_cursor_is_write ;	/* set by write-mode workloads: sf_seek without SFM_* moves the write cursor there */
static void chk_seek (SNDFILE *sf, long target, int whence_flags, long frames_hint, long *pos)
{	sf_count_t r ; PeekState pk ;
	INLIB (r = sf_seek (sf, target, SEEK_SET | whence_flags)) ;
	if (r != -1 && r != target) V15 ("seek-return-range", "seek to %ld returned %lld", target, (long long) r) ;
	(void) frames_hint ;
	pk_get (sf, &pk, 0) ;
	*pos = (whence_flags == SFM_WRITE || (whence_flags == 0 && seek_cursor_is_write)) ? pk.write_current : pk.read_current ; TH (r) ; TH (*pos) ;
}

/* ---------------------------------------------------------------- routes */

enum { R_VIO = 0, R_PATH, R_NROUTES } ;
static const char *route_names [R_NROUTES] = { "vio", "path" } ;
static int ROUTE ;
static char scratch_dir [600], scratch_path [800], scratch_rsrc [800] ;

static void scratch_init (void)
{	const char *t = getenv ("TMPDIR") ;
	snprintf (scratch_dir, sizeof (scratch_dir), "%s/scratch", t && t [0] ? t : "/tmp") ; mkdir (scratch_dir, 0700) ;
}
static void scratch_paths (void)
{	const char *ext = F && (F->format & SF_FORMAT_TYPEMASK) == SF_FORMAT_SD2 ? "sd2" : "dat" ;
	snprintf (scratch_path, sizeof (scratch_path), "%s/f.%s", scratch_dir, ext) ;
	snprintf (scratch_rsrc, sizeof (scratch_rsrc), "%s/._f.%s", scratch_dir, ext) ;
}
static void scratch_clean (void)
{	DIR *d = opendir (scratch_dir) ; struct dirent *e ; char pth [900] ;
	if (! d) return ;
	while ((e = readdir (d))) if (strcmp (e->d_name, ".") && strcmp (e->d_name, "..")) { snprintf (pth, sizeof (pth), "%s/%s", scratch_dir, e->d_name) ; unlink (pth) ; }
	closedir (d) ;
}
static void put_file (const char *path, const unsigned char *p, sf_count_t n)
{	int fd = sio_real_open (path, O_CREAT | O_TRUNC | O_WRONLY, 0600) ; sf_count_t done = 0 ;
	if (fd < 0) return ;
	while (done < n) { long w = sio_real_write (fd, p + done, n - done) ; if (w <= 0) break ; done += w ; }
	sio_real_close (fd) ;
}
static unsigned char *get_file (const char *path, sf_count_t *n)
{	struct stat st ; unsigned char *p ; int fd ; sf_count_t done = 0 ;
	*n = 0 ;
	if (stat (path, &st) != 0 || (fd = sio_real_open (path, O_RDONLY, 0)) < 0) return NULL ;
	p = malloc (st.st_size + 1) ;
	while (done < st.st_size) { long r = sio_real_read (fd, p + done, st.st_size - done) ; if (r <= 0) break ; done += r ; }
	sio_real_close (fd) ; *n = done ; return p ;
}

/* ---- descriptor-route fault plan: the wrapped libc calls made while control is inside the library */

enum { S_ZERO = 0, S_HALF, S_MINUS1, S_EIO, S_ENOSPC, S_EBADF, S_EINTR, S_SEEK_ESPIPE, S_SEEK_EINVAL, S_STAT_FAIL, S_STAT_M1, S_STAT_P1, S_STAT_0, S_STAT_BIG, S_OPEN_EMFILE, S_OPEN_EACCES, S_NFAULTS } ;
static const char *sfault_names [S_NFAULTS] = { "zero-bytes", "half", "one-short", "EIO", "ENOSPC", "EBADF", "EINTR", "lseek-ESPIPE", "lseek-EINVAL", "fstat-EIO", "size-1", "size+1", "size=0", "size=2^40", "open-EMFILE", "open-EACCES" } ;

static int sapplies (int fault, int kind, int persistent)
{	switch (kind)
	{	case MD_READ : case SIO_FREAD : return fault <= S_EIO || fault == S_EBADF || (fault == S_EINTR && ! persistent && kind == MD_READ) ;
		case MD_WRITE : case SIO_FWRITE : return fault <= S_EBADF || (fault == S_EINTR && ! persistent && kind == MD_WRITE) ;
		case MD_SEEK : return fault == S_SEEK_ESPIPE || fault == S_SEEK_EINVAL ;
		case MD_LEN : return fault >= S_STAT_FAIL && fault <= S_STAT_BIG ;
		case SIO_OPEN : case SIO_FOPEN : return fault >= S_OPEN_EMFILE ;
		default : return 0 ;
		}
}

typedef struct { long at [2] ; int fault [2] ; int persistent ; int nfaults ; int kind0 ; long budget ; unsigned char *kinds ; long maxk ; } SysPlan ;
static SysPlan splan ;

static int sys_hook (int kind, int fd, sf_count_t requested, sf_count_t *answer, int *err, void *user)
{	long idx = sio_ncalls ;	/* already counts the call being answered */
	(void) fd ; (void) user ;
	if (splan.kinds && idx <= splan.maxk) splan.kinds [idx - 1] = (unsigned char) kind ;
	if (splan.budget > 0 && idx > splan.budget) vl_budget_exceeded ("sys") ;
	if (splan.persistent == 2)	/* the descriptor dies at call splan.at [0]: every transfer, seek and stat fails with EIO from then on */
	{	if (idx < splan.at [0]) return 0 ;
		if (kind == SIO_OPEN || kind == SIO_FOPEN) return 0 ;
		if (plan.first_fault_ncb == 0)
		{	struct stat st ; plan.first_fault_ncb = idx ; plan.len_at_fault = stat (scratch_path, &st) == 0 ? st.st_size : 0 ; }
		faults_delivered ++ ;
		*answer = -1 ; *err = EIO ; (void) requested ;
		return 1 ;
		}
	for (int k = 0 ; k < splan.nfaults ; k++)
	{	int hit = splan.persistent ? (idx >= splan.at [k] && kind == splan.kind0) : idx == splan.at [k] ;
		if (! hit || ! sapplies (splan.fault [k], kind, splan.persistent)) continue ;
		if (plan.first_fault_ncb == 0)
		{	struct stat st ; plan.first_fault_ncb = idx ; plan.len_at_fault = stat (scratch_path, &st) == 0 ? st.st_size : 0 ; }
		faults_delivered ++ ; if (splan.fault [k] >= S_STAT_M1 && splan.fault [k] <= S_STAT_BIG) device_lied = 1 ;
		switch (splan.fault [k])
		{	case S_ZERO : *answer = 0 ; break ;
			case S_HALF : *answer = requested / 2 ; break ;
			case S_MINUS1 : *answer = requested > 0 ? requested - 1 : 0 ; break ;
			case S_EIO : case S_STAT_FAIL : *answer = -1 ; *err = EIO ; break ;
			case S_ENOSPC : *answer = -1 ; *err = ENOSPC ; break ;
			case S_EBADF : *answer = -1 ; *err = EBADF ; break ;
			case S_EINTR : *answer = -1 ; *err = EINTR ; break ;
			case S_SEEK_ESPIPE : *answer = -1 ; *err = ESPIPE ; break ;
			case S_SEEK_EINVAL : *answer = -1 ; *err = EINVAL ; break ;
			case S_STAT_M1 : case S_STAT_P1 : case S_STAT_0 :
				{	struct stat st ; sf_count_t sz = stat (scratch_path, &st) == 0 ? st.st_size : 0 ;
					*answer = splan.fault [k] == S_STAT_0 ? 0 : splan.fault [k] == S_STAT_M1 ? (sz > 0 ? sz - 1 : 0) : sz + 1 ;
					}
				break ;
			case S_STAT_BIG : *answer = (sf_count_t) 1 << 40 ; break ;
			case S_OPEN_EMFILE : *answer = -1 ; *err = EMFILE ; break ;
			default : *answer = -1 ; *err = EACCES ; break ;
			}
		return 1 ;
		}
	return 0 ;
}

/* ---------------------------------------------------------------- workloads */

static short wdata [12000] ;
static unsigned char *seed, *seed_rsrc ; static sf_count_t seed_len, seed_rsrc_len ; static long seed_frames ; static sf_count_t seed_dataoffset ;
enum { W_WRITE = 0, W_READ, W_RDWR, W_WRITE_META, W_READ_TYPES, W_N } ;
static const char *w_names [W_N] = { "write", "read", "rdwr", "write-meta-update", "read-types-calc" } ;

static long io_budget (void) { return 20000 + 64 * ((long) seed_len + 60000) ; }

/* open through the current route; the device / file must have been prepared */
static SNDFILE *route_open (int mode, SF_INFO *info)
{	SNDFILE *sf ;
	if (ROUTE == R_VIO) return md_open (&dev, mode, info) ;
	INLIB (sf = sf_open (scratch_path, mode, info)) ;
	return sf ;
}

static void route_prepare (int with_seed, unsigned char *kinds, long maxk)
{	if (ROUTE == R_VIO)
	{	if (with_seed) md_set (&dev, seed, seed_len) ; else md_reset (&dev) ;
		dev.fault = plan.nfaults ? fault_hook : NULL ; dev.log_on = kinds != NULL ; dev.budget = io_budget () ;
		return ;
		}
	scratch_clean () ; scratch_paths () ;
	if (with_seed) { put_file (scratch_path, seed, seed_len) ; if (seed_rsrc) put_file (scratch_rsrc, seed_rsrc, seed_rsrc_len) ; }
	splan.kinds = kinds ; splan.maxk = maxk ; splan.budget = io_budget () ;
	sio_set_fault (sys_hook, NULL) ;
}

static long route_calls (void) { return ROUTE == R_VIO ? dev.ncb : sio_ncalls ; }

static long decode_image (const unsigned char *img, sf_count_t len, short *out, long maxframes) ;
#define MODEL_MAX 4096
static short seed_dec [MODEL_MAX * 2] ; static long seed_dec_frames ;
void vl_budget_exceeded (const char *what) ;
static int build_seed (void)
{	SF_INFO info ; SNDFILE *sf ; long N = B > 1 && B < 1200 ? 2 * B + 3 : B >= 1200 ? B + 3 : 11 ; PeekState pk ;
	free (seed) ; seed = NULL ; free (seed_rsrc) ; seed_rsrc = NULL ; seed_rsrc_len = 0 ;
	memset (&plan, 0, sizeof (plan)) ; memset (&splan, 0, sizeof (splan)) ; seed_len = 0 ;
	if (F->needs_path)
	{	ROUTE = R_PATH ; route_prepare (0, NULL, 0) ; rt_info (&info, F, CH, fmt_default_rate (F)) ;
		sf = route_open (SFM_WRITE, &info) ; if (! sf) { sio_set_fault (NULL, NULL) ; return 0 ; }
		vl_write (sf, T_SHORT, 1, wdata, N) ; INLIB (sf_close (sf)) ;
		seed = get_file (scratch_path, &seed_len) ; seed_rsrc = get_file (scratch_rsrc, &seed_rsrc_len) ;
		rt_info_read (&info, F, CH, fmt_default_rate (F)) ; sf = route_open (SFM_READ, &info) ;
		if (! sf) { sio_set_fault (NULL, NULL) ; return 0 ; }
		seed_frames = info.frames ; pk_get (sf, &pk, 0) ; seed_dataoffset = pk.dataoffset ; INLIB (sf_close (sf)) ;
		sio_set_fault (NULL, NULL) ;
		return seed != NULL ;
		}
	md_reset (&dev) ; rt_info (&info, F, CH, fmt_default_rate (F)) ; sf = md_open (&dev, SFM_WRITE, &info) ;
	if (! sf) return 0 ;
	vl_write (sf, T_SHORT, 1, wdata, N) ; INLIB (sf_close (sf)) ;
	seed_len = dev.len ; seed = malloc (dev.len + 1) ; memcpy (seed, dev.data, dev.len) ;
	md_rewind (&dev) ; rt_info_read (&info, F, CH, fmt_default_rate (F)) ; sf = md_open (&dev, SFM_READ, &info) ;
	if (! sf) return 0 ;
	seed_frames = info.frames ; pk_get (sf, &pk, 0) ; seed_dataoffset = pk.dataoffset ; INLIB (sf_close (sf)) ;
	seed_dec_frames = decode_image (seed, seed_len, seed_dec, MODEL_MAX) ;
	return 1 ;
}

static void chk_info (const SF_INFO *info)
{	/* whatever the header parse made of the lies about the length, the SF_INFO must stay sane */
	if (info->channels < 1 || info->channels > 1024 || info->samplerate < 1 || info->frames < 0)
		V15 ("insane-info", "channels %d samplerate %d frames %lld after a faulted open", info->channels, info->samplerate, (long long) info->frames) ;
}

static void chk_read_typed (SNDFILE *sf, int type, long k, long *pos)
{	GBuf g ; sf_count_t r ; PeekState pk ;
	gb_new (&g, 32, k * CH * type_size [type], 32, 0x6B) ;
	r = vl_read (sf, type, 1, gb_ptr (&g), k) ;
	if (gb_check (&g)) V15 ("read-outside-request", "guard bytes around the read buffer were modified") ;
	if (r < 0 || r > k) V15 ("read-return-range", "read of %ld frames returned %lld", k, (long long) r) ;
	pk_get (sf, &pk, 0) ;
	if (r >= 0 && r <= k && pk.read_current != *pos + r) V15 ("read-position-advance", "read position %lld after delivering %lld frames from %ld", (long long) pk.read_current, (long long) r, *pos) ;
	*pos = pk.read_current ; TH (r) ; TH (*pos) ; if (r > 0 && r <= k) TH (vl_hash (gb_ptr (&g), r * CH * type_size [type], 7)) ;
	gb_free (&g) ;
}

/* ---- content model of the read/write workload: what every frame of the file must hold at the end.
** Frames start as the seed's; a write the library reported at frames [p, p+w) replaces them by the written
** data (as it decodes after a fault-free round trip through the same encoding); a call during which a fault
** was delivered makes the frames it was aimed at unknown. Frames never named by a reported write must survive. */
static short model [MODEL_MAX * 2] ; static unsigned char model_known [MODEL_MAX] ; static long model_len ; static long open_calls ;

static long decode_image (const unsigned char *img, sf_count_t len, short *out, long maxframes)
{	MemDev t ; SF_INFO ri ; SNDFILE *sf ; long n = -1 ;
	if (F->needs_path) return -1 ;	/* SD2 cannot be decoded from a memory image; the frame model is not used for it */
	md_init (&t) ; md_set (&t, img, len) ; rt_info_read (&ri, F, CH, fmt_default_rate (F)) ; sf = md_open (&t, SFM_READ, &ri) ;
	if (sf) { n = ri.channels == CH ? (long) vl_read (sf, T_SHORT, 1, out, maxframes) : -1 ; INLIB (sf_close (sf)) ; }
	md_free (&t) ; return n ;
}

static void roundtrip_decode (const short *buf, long frames, short *out)
{	MemDev t ; SF_INFO wi ; SNDFILE *sf ;
	memcpy (out, buf, frames * CH * sizeof (short)) ;
	md_init (&t) ; rt_info (&wi, F, CH, fmt_default_rate (F)) ; sf = md_open (&t, SFM_WRITE, &wi) ;
	if (sf) { vl_write (sf, T_SHORT, 1, buf, frames) ; INLIB (sf_close (sf)) ; decode_image (t.data, t.len, out, frames) ; }
	md_free (&t) ;
}

static void model_init (void)
{	model_len = seed_dec_frames ; if (model_len > MODEL_MAX) model_len = MODEL_MAX ; if (model_len < 0) model_len = 0 ;
	memcpy (model, seed_dec, model_len * CH * sizeof (short)) ; memset (model_known, 1, model_len) ; memset (model_known + model_len, 0, MODEL_MAX - model_len) ;
}

static void model_write (SNDFILE *sf, const short *buf, long k, long *wpos)
{	long at = *wpos, before = faults_delivered ; sf_count_t w ; short dec [64] ; PeekState pk ;
	if (F->needs_path) { chk_write (sf, buf, k, wpos) ; return ; }
	pk_get (sf, &pk, 0) ; at = pk.write_current ;
	chk_write (sf, buf, k, wpos) ;
	pk_get (sf, &pk, 0) ; w = pk.write_current - at ;
	if (at < 0 || at + k > MODEL_MAX || k * CH > 64) return ;
	if (faults_delivered != before || w < 0 || w > k) { memset (model_known + at, 0, k) ; if (at + k > model_len) model_len = at + k ; return ; }
	roundtrip_decode (buf, k, dec) ;
	for (long f = model_len ; f < at ; f++) model_known [f] = 0 ;	/* a gap the library fills as it likes */
	memcpy (model + at * CH, dec, w * CH * sizeof (short)) ; memset (model_known + at, 1, w) ;
	if (at + w > model_len) model_len = at + w ;
}

static void model_check (void)
{	unsigned char *img ; sf_count_t len ; static short fin [MODEL_MAX * 2] ; long n ;
	if (is_c16 || ! plan.first_fault_ncb || plan.first_fault_ncb <= open_calls || device_lied) return ;
	if (ROUTE == R_VIO) { img = dev.data ; len = dev.len ; } else img = get_file (scratch_path, &len) ;
	n = img ? decode_image (img, len, fin, MODEL_MAX) : -1 ;
	if (ROUTE == R_PATH) free (img) ;
	if (n < 0) return ;	/* the header did not survive the faults: nothing to compare frames against */
	for (long f = 0 ; f < n && f < model_len ; f++)
		if (model_known [f] && memcmp (fin + f * CH, model + f * CH, CH * sizeof (short)))
		{	V15 ("accepted-data-damaged", "frame %ld holds %d at the end; it was %d before the fault at I/O call %ld and no write was reported there afterwards", f, fin [f * CH], model [f * CH], plan.first_fault_ncb) ; return ; }
}

/* returns the number of I/O calls the run performed; kinds (if not NULL) receives the kind of each one */
static long workload (int w, unsigned char *kinds, long maxk)
{	SF_INFO info ; SNDFILE *sf = NULL ; long pos = 0, k1 = B > 1 && B < 1200 ? B - 1 : 4, k2 = B > 1 && B < 1200 ? B + 1 : 5 ; int rc = 0 ; long ncb ;
	begin_history () ;
	route_prepare (w != W_WRITE && w != W_WRITE_META, kinds, maxk) ;
	if (w == W_WRITE)
	{	rt_info (&info, F, CH, fmt_default_rate (F)) ;
		if ((sf = route_open (SFM_WRITE, &info)))
		{	chk_write (sf, wdata, k1, &pos) ; chk_write (sf, wdata + k1 * CH, k2, &pos) ; chk_write (sf, wdata + (k1 + k2) * CH, 3, &pos) ;
			INLIB (rc = sf_close (sf)) ;
			}
		}
	else if (w == W_READ)
	{	rt_info_read (&info, F, CH, fmt_default_rate (F)) ;
		if ((sf = route_open (SFM_READ, &info)))
		{	chk_info (&info) ;
			if (info.channels == CH)
			{	chk_read (sf, k1, &pos) ; chk_read (sf, k2, &pos) ;
				chk_seek (sf, 1, 0, seed_frames, &pos) ; chk_read (sf, 2, &pos) ; chk_seek (sf, seed_frames, 0, seed_frames, &pos) ; chk_seek (sf, 0, 0, seed_frames, &pos) ;
				chk_read (sf, seed_frames + 2 < 4000 ? seed_frames + 2 : 4000, &pos) ;
				}
			INLIB (rc = sf_close (sf)) ;
			}
		}
	else if (w == W_RDWR)
	{	long rpos = 0, wpos ; int rdwr_ran = 0 ;
		rt_info_read (&info, F, CH, fmt_default_rate (F)) ;
		if ((sf = route_open (SFM_RDWR, &info)))
		{	chk_info (&info) ;
			if (info.channels == CH)
			{	PeekState pk ; pk_get (sf, &pk, 0) ; wpos = pk.write_current ; open_calls = route_calls () ; model_init () ;
				chk_read (sf, 3, &rpos) ; model_write (sf, wdata, 2, &wpos) ; chk_seek (sf, 1, SFM_READ, seed_frames, &rpos) ; chk_read (sf, 2, &rpos) ;
				chk_seek (sf, 2, SFM_WRITE, seed_frames, &wpos) ; model_write (sf, wdata + 40, 3, &wpos) ;
				chk_seek (sf, 0, SFM_READ, seed_frames, &rpos) ; chk_read (sf, 2, &rpos) ;
				chk_seek (sf, seed_frames, SFM_WRITE, seed_frames, &wpos) ; model_write (sf, wdata + 80, 2, &wpos) ;
				rdwr_ran = 1 ;
				}
			INLIB (rc = sf_close (sf)) ;
			if (rdwr_ran) model_check () ;
			}
		}
	else if (w == W_WRITE_META)
	{	/* strings, header update in mid-stream, automatic header updates, seek back and overwrite, strings again */
		rt_info (&info, F, CH, fmt_default_rate (F)) ;
		if ((sf = route_open (SFM_WRITE, &info)))
		{	INLIB (sf_set_string (sf, SF_STR_TITLE, "fault title")) ; INLIB (sf_set_string (sf, SF_STR_COMMENT, "c")) ;
			chk_write (sf, wdata, k2, &pos) ;
			INLIB (sf_command (sf, SFC_UPDATE_HEADER_NOW, NULL, 0)) ;
			INLIB (sf_command (sf, SFC_SET_UPDATE_HEADER_AUTO, NULL, SF_TRUE)) ;
			chk_write (sf, wdata + k2 * CH, k1, &pos) ;
			seek_cursor_is_write = 1 ;
			if (F->gran) { chk_seek (sf, 1, 0, 0, &pos) ; chk_write (sf, wdata + 100, 2, &pos) ; chk_seek (sf, k1 + k2, 0, 0, &pos) ; }
			seek_cursor_is_write = 0 ;
			INLIB (sf_set_string (sf, SF_STR_ARTIST, "late artist")) ;
			chk_write (sf, wdata + 200, 3, &pos) ;
			INLIB (sf_write_sync (sf)) ;
			INLIB (rc = sf_close (sf)) ;
			}
		}
	else
	{	/* every read type, raw reads, the scanning commands (they seek and read behind the caller's back), chunk iteration */
		rt_info_read (&info, F, CH, fmt_default_rate (F)) ;
		if ((sf = route_open (SFM_READ, &info)))
		{	chk_info (&info) ;
			if (info.channels == CH)
			{	double mx [8] ; SF_CHUNK_ITERATOR *it ; int g = 0 ; PeekState pk ;
				chk_read_typed (sf, T_FLOAT, 3, &pos) ; chk_read_typed (sf, T_INT, k1, &pos) ;
				INLIB (sf_command (sf, SFC_CALC_SIGNAL_MAX, mx, sizeof (double))) ;
				pk_get (sf, &pk, 0) ; pos = pk.read_current ;	/* with failing seeks the scan cannot always come back: only containment is required */
				chk_read_typed (sf, T_DOUBLE, 2, &pos) ;
				INLIB (sf_command (sf, SFC_CALC_NORM_MAX_ALL_CHANNELS, mx, sizeof (double) * CH)) ;
				pk_get (sf, &pk, 0) ; pos = pk.read_current ;
				INLIB (it = sf_get_chunk_iterator (sf, NULL)) ;
				while (it && g ++ < 50)
				{	SF_CHUNK_INFO ci ; memset (&ci, 0, sizeof (ci)) ;
					INLIB (sf_get_chunk_size (it, &ci)) ;
					if (ci.datalen > 0 && ci.datalen < 100000)
					{	GBuf gb ; gb_new (&gb, 32, ci.datalen, 32, 0x5C) ; ci.data = gb_ptr (&gb) ; INLIB (sf_get_chunk_data (it, &ci)) ;
						if (gb_check (&gb)) V15 ("chunk-data-outside-buffer", "guard bytes around the chunk buffer were modified") ;
						gb_free (&gb) ;
						}
					INLIB (it = sf_next_chunk_iterator (it)) ;
					}
				chk_seek (sf, 2, 0, seed_frames, &pos) ; chk_read_typed (sf, T_SHORT, 2, &pos) ;
				}
			INLIB (rc = sf_close (sf)) ;
			}
		}
	ncb = route_calls () ;
	if (ROUTE == R_PATH) sio_set_fault (NULL, NULL) ;
	if (! sf)
	{	int e ; INLIB (e = sf_error (NULL)) ;
		if (e == 0) V15 ("open-null-without-error", "sf_open returned NULL but sf_error (NULL) is 0") ;
		}
	TH (sf != NULL) ;
	after_close_checks (rc, 0, sf ? "after sf_close" : "after the failed sf_open") ;
	if (kinds && ROUTE == R_VIO)
		for (long i = 0 ; i < dev.log_n && i < maxk ; i++) kinds [i] = dev.log [i].kind ;
	return ncb ;
}

/* write workloads: the audio bytes the device had accepted when the first fault hit must be intact at the end */
static unsigned char *good_image ; static sf_count_t good_len, good_dataoffset ; static uint64_t good_thash ;
static unsigned char *good_meta_image ; static sf_count_t good_meta_len, good_meta_dataoffset ;

static uint64_t final_image (unsigned char **img, sf_count_t *len)
{	if (ROUTE == R_VIO) { *img = dev.data ; *len = dev.len ; return md_hash (&dev) ; }
	*img = get_file (scratch_path, len) ; return vl_hash (*img ? *img : (unsigned char *) "", *img ? *len : 0, 11) ;
}

static void data_preserved_check (int w)
{	unsigned char *img ; sf_count_t len, upto ;
	if (w == W_WRITE_META && ROUTE == R_VIO && plan.first_fault_ncb && good_meta_image && ! is_c16 && ! device_lied && ! nontransfer_fault && fault_snap)
	{	/* Only executions whose delivered faults are all write transfers (0 bytes, fewer bytes, -1): a failed tell or seek during a header
		** rewrite leaves the file position behind the header in most containers, which is a wider question than this clause settles.
		** This history also rewrites headers in mid-stream and overwrites audio after a seek back: every audio byte the device held at the first
		** fault must at the end be what it was then, or what the same history puts there without the fault - not something a later call displaced */
		final_image (&img, &len) ;
		upto = fault_snap_len < len ? fault_snap_len : len ; if (upto > good_meta_len) upto = good_meta_len ;
		for (sf_count_t k = good_meta_dataoffset ; img && k < upto ; k++)
			if (img [k] != fault_snap [k] && img [k] != good_meta_image [k])
			{	V15 ("accepted-data-displaced", "byte %lld of the audio data is 0x%02x at the end: it was 0x%02x when the fault at I/O call %ld hit and the fault-free history leaves 0x%02x there", (long long) k, img [k], fault_snap [k], plan.first_fault_ncb, good_meta_image [k]) ; break ; }
		return ;
		}
	if ((w != W_WRITE) || ! plan.first_fault_ncb || ! good_image || is_c16) return ;
	final_image (&img, &len) ;
	upto = plan.len_at_fault < len ? plan.len_at_fault : len ;
	if (upto > good_len) upto = good_len ;
	for (sf_count_t k = good_dataoffset ; img && k < upto ; k++)
		if (img [k] != good_image [k])
		{	V15 ("accepted-data-damaged", "byte %lld of the audio data (accepted before the fault at I/O call %ld) differs at the end of the run", (long long) k, plan.first_fault_ncb) ; break ; }
	if (ROUTE == R_PATH) free (img) ;
}

static void set_fault (int k, long at, int f)
{	if (ROUTE == R_VIO) { plan.at [k] = at ; plan.fault [k] = f ; plan.nfaults = k + 1 ; }
	else { splan.at [k] = at ; splan.fault [k] = f ; splan.nfaults = k + 1 ; plan.nfaults = k + 1 ; }
}
static void clear_plan (void) { memset (&plan, 0, sizeof (plan)) ; memset (&splan, 0, sizeof (splan)) ; }
static int nfault_kinds (void) { return ROUTE == R_VIO ? F_NFAULTS : S_NFAULTS ; }
static const char *fault_name (int f) { return ROUTE == R_VIO ? fault_names [f] : sfault_names [f] ; }
static int fault_applies (int f, int kind, int pers) { return ROUTE == R_VIO ? applies (f, kind) : sapplies (f, kind, pers) ; }
static int fault_reduced (int f) { return ROUTE == R_VIO ? (f == F_HALF || f >= F_LEN_P1) : (f == S_HALF || f == S_EBADF || f == S_ENOSPC || f == S_SEEK_EINVAL || f == S_EINTR || f >= S_STAT_P1) ; }

static void one_execution (int w)
{	static unsigned char dbg_kinds [4096] ; int dbg = vl_replaying () && getenv ("VL_DUMP_IO") != NULL ;
	vl_root_count (F->name) ;
	workload (w, dbg ? dbg_kinds : NULL, dbg ? (long) sizeof (dbg_kinds) : 0) ;
	if (dbg && ROUTE == R_VIO)
		for (long i = 0 ; i < dev.log_n ; i++) vl_note ("io %ld kind=%d off=%lld req=%lld ans=%lld", i + 1, dev.log [i].kind, (long long) dev.log [i].off, (long long) dev.log [i].req, (long long) dev.log [i].ans) ;
	data_preserved_check (w) ;
	vl_note ("I/O calls: %ld", route_calls ()) ;
	vl_count_transitions (1) ; vl_count_states (1) ;
}

static void fault_sweep (int w)
{	static unsigned char kinds [200000] ; long K ; int maxpair ; unsigned char *img ; sf_count_t len ;
	clear_plan () ;
	mute = 1 ; K = workload (w, kinds, sizeof (kinds)) ; mute = 0 ;
	if (K <= 0) return ;
	good_thash = thash ; final_image (&img, &len) ;
	if (w == W_WRITE)
	{	SF_INFO ri ; SNDFILE *sf ; PeekState pk ; MemDev tmp ;
		free (good_image) ; good_len = len ; good_image = malloc (len + 1) ; if (img) memcpy (good_image, img, len) ;
		good_dataoffset = good_len ;
		if (! F->needs_path)
		{	md_init (&tmp) ; md_set (&tmp, good_image, good_len) ; rt_info_read (&ri, F, CH, fmt_default_rate (F)) ; sf = md_open (&tmp, SFM_READ, &ri) ;
			if (sf) { pk_get (sf, &pk, 0) ; good_dataoffset = pk.dataoffset ; INLIB (sf_close (sf)) ; } md_free (&tmp) ;
			}
		else good_dataoffset = 0 ;	/* SD2: the data fork is audio from byte 0 */
		}
	if (w == W_WRITE_META)
	{	free (good_meta_image) ; good_meta_image = NULL ;
		if (ROUTE == R_VIO && img && ! F->needs_path)
		{	SF_INFO ri ; SNDFILE *sf ; PeekState pk ; MemDev tmp ;
			good_meta_len = len ; good_meta_image = malloc (len + 1) ; memcpy (good_meta_image, img, len) ; good_meta_dataoffset = len ;
			md_init (&tmp) ; md_set (&tmp, good_meta_image, good_meta_len) ; rt_info_read (&ri, F, CH, fmt_default_rate (F)) ; sf = md_open (&tmp, SFM_READ, &ri) ;
			if (sf) { pk_get (sf, &pk, 0) ; good_meta_dataoffset = pk.dataoffset ; INLIB (sf_close (sf)) ; } md_free (&tmp) ;
			}
		}
	if (ROUTE == R_PATH) free (img) ;
	if (vl_case ("%s H fmt=%s ch=%d route=%s workload=%s fault=none", vl_opts.prop, F->name, CH, route_names [ROUTE], w_names [w]))
	{	clear_plan () ; one_execution (w) ;
		if (thash != good_thash) vl_note ("fault-free transcript differs between two runs") ;
		vl_end (1, thash) ;
		}
	if (K > (long) sizeof (kinds)) K = sizeof (kinds) ;
	/* every (I/O call, fault kind, persistence): one case each, so that a hang or crash costs exactly that execution */
	for (long i = 1 ; i <= K ; i++)
		for (int f = 0 ; f < nfault_kinds () ; f++)
			for (int pers = 0 ; pers < 2 ; pers++)
			{	if (! fault_applies (f, kinds [i - 1], pers)) continue ;
				if (vl_case ("%s H fmt=%s ch=%d route=%s workload=%s fault=%s at=%ld persistent=%d", vl_opts.prop, F->name, CH, route_names [ROUTE], w_names [w], fault_name (f), i, pers))
				{	uint64_t fin ;
					clear_plan () ; set_fault (0, i, f) ; plan.persistent = splan.persistent = pers ; plan.kind0 = splan.kind0 = kinds [i - 1] ;
					one_execution (w) ;
					fin = vl_hash_u64 (route_calls (), thash) ;
					vl_end (1, fin) ;
					}
				}
	/* the device / descriptor dies at call i: everything fails from then on */
	for (long i = 1 ; i <= K ; i++)
		if (vl_case ("%s H fmt=%s ch=%d route=%s workload=%s fault=everything-fails from=%ld", vl_opts.prop, F->name, CH, route_names [ROUTE], w_names [w], i))
		{	clear_plan () ; set_fault (0, i, 0) ; plan.persistent = splan.persistent = 2 ;
			one_execution (w) ;
			vl_end (1, vl_hash_u64 (route_calls (), thash)) ;
			}
	/* pairs of single-shot faults: quick among the first 24 calls with the reduced alphabet, thorough among all (cap 400) with the full one */
	maxpair = vl_opts.thorough ? (K < 400 ? (int) K : 400) : (K < 24 ? (int) K : 24) ;
	for (long i = 1 ; i <= maxpair ; i++)
		for (long j = i + 1 ; j <= maxpair ; j++)
			for (int f = 0 ; f < nfault_kinds () ; f++)
				for (int g = 0 ; g < nfault_kinds () ; g++)
				{	if (! fault_applies (f, kinds [i - 1], 0) || ! fault_applies (g, kinds [j - 1], 0)) continue ;
					if ((! vl_opts.thorough || j > 80) && (fault_reduced (f) || fault_reduced (g))) continue ;
					if (vl_case ("%s H2 fmt=%s ch=%d route=%s workload=%s fault=%s at=%ld fault2=%s at2=%ld", vl_opts.prop, F->name, CH, route_names [ROUTE], w_names [w], fault_name (f), i, fault_name (g), j))
					{	clear_plan () ; set_fault (0, i, f) ; set_fault (1, j, g) ;
						one_execution (w) ;
						vl_end (1, vl_hash_u64 (route_calls (), thash)) ;
						}
					}
}

/* ---------------------------------------------------------------- truncated pipe streams (genuine end-of-stream on a non-seekable descriptor) */

static void pipe_sweep (void)
{	sf_count_t maxn = seed_len < 60000 ? seed_len : 60000 ;
	if (F->needs_path) return ;
	for (sf_count_t n = 0 ; n <= maxn ; n++)
	{	int fds [2] ; SF_INFO info ; SNDFILE *sf ; long pos = 0 ; int rc = 0 ;
		if (! vl_case ("%s P fmt=%s ch=%d route=pipe stream-ends-at=%lld of %lld", vl_opts.prop, F->name, CH, (long long) n, (long long) seed_len)) continue ;
		vl_root_count (F->name) ; clear_plan () ; ROUTE = R_VIO ; begin_history () ;
		if (pipe (fds) != 0) { vl_end (0, 0) ; continue ; }
		if (n > 0 && sio_real_write (fds [1], seed, n) != n) { sio_real_close (fds [0]) ; sio_real_close (fds [1]) ; vl_end (0, 0) ; continue ; }
		sio_real_close (fds [1]) ;
		splan.budget = io_budget () ; sio_set_fault (sys_hook, NULL) ;
		rt_info_read (&info, F, CH, fmt_default_rate (F)) ;
		INLIB (sf = sf_open_fd (fds [0], SFM_READ, &info, SF_TRUE)) ;
		if (sf)
		{	chk_info (&info) ;
			if (info.channels == CH)
			{	long k1 = B > 1 && B < 1200 ? B - 1 : 4 ;
				chk_read (sf, k1, &pos) ; chk_read_typed (sf, T_FLOAT, 3, &pos) ; chk_read (sf, 4000, &pos) ; chk_read (sf, 1, &pos) ;
				}
			INLIB (rc = sf_close (sf)) ;
			}
		else
		{	int e ; INLIB (e = sf_error (NULL)) ;
			if (e == 0) V15 ("open-null-without-error", "sf_open_fd returned NULL but sf_error (NULL) is 0") ;
			}
		sio_set_fault (NULL, NULL) ;
		if (sio_fd_is_open (fds [0]))
		{	/* handed over with close_desc = SF_TRUE: sf_close must have closed it; after a failed open the caller keeps it */
			if (sf) V16 ("leak-descriptor", "the descriptor handed over with close_desc = SF_TRUE is still open after sf_close") ;
			sio_real_close (fds [0]) ;
			}
		after_close_checks (rc, 0, sf ? "after sf_close (pipe)" : "after the failed sf_open_fd (pipe)") ;
		vl_count_transitions (1) ; vl_count_states (1) ;
		vl_end (1, vl_hash_u64 (sf != NULL, thash)) ;
		}
}

/* ---------------------------------------------------------------- C16 (c): allocating call histories */

enum { A_STRINGS = 0, A_BEXT, A_CART, A_CUES, A_INST, A_CHUNKS, A_PEAK, A_CHMAP, A_DITHER, A_ITERATE, A_N } ;
static const char *a_names [A_N] = { "strings", "bext", "cart", "cues", "instrument", "chunks", "peak", "chanmap", "dither", "iterate-chunks" } ;

static void do_alloc_action (SNDFILE *sf, int a)
{	vl_inlib ++ ;
	switch (a)
	{	case A_STRINGS : sf_set_string (sf, SF_STR_TITLE, "t") ; sf_set_string (sf, SF_STR_ARTIST, "a longer artist string") ; sf_set_string (sf, SF_STR_COMMENT, "c") ; break ;
		case A_BEXT : { static SF_BROADCAST_INFO b ; memset (&b, 0, sizeof (b)) ; strcpy (b.description, "d") ; b.coding_history_size = 4 ; memcpy (b.coding_history, "A=1\n", 4) ; sf_command (sf, SFC_SET_BROADCAST_INFO, &b, sizeof (b)) ; } break ;
		case A_CART : { static SF_CART_INFO c ; memset (&c, 0, sizeof (c)) ; strcpy (c.title, "t") ; c.tag_text_size = 3 ; memcpy (c.tag_text, "tag", 3) ; sf_command (sf, SFC_SET_CART_INFO, &c, sizeof (c)) ; } break ;
		case A_CUES : { static SF_CUES q ; memset (&q, 0, sizeof (q)) ; q.cue_count = 2 ; q.cue_points [0].indx = 1 ; q.cue_points [1].indx = 2 ; sf_command (sf, SFC_SET_CUE, &q, sizeof (q)) ; } break ;
		case A_INST : { SF_INSTRUMENT in ; memset (&in, 0, sizeof (in)) ; in.gain = 1 ; in.basenote = 60 ; in.loop_count = 1 ; in.loops [0].mode = SF_LOOP_FORWARD ; in.loops [0].end = 3 ; sf_command (sf, SFC_SET_INSTRUMENT, &in, sizeof (in)) ; } break ;
		case A_CHUNKS : for (int i = 0 ; i < 3 ; i++) { SF_CHUNK_INFO ci ; char d [12] = "chunkdata.." ; memset (&ci, 0, sizeof (ci)) ; snprintf (ci.id, sizeof (ci.id), "ck%02d", i) ; ci.id_size = 4 ; ci.datalen = 11 ; ci.data = d ; sf_set_chunk (sf, &ci) ; } break ;
		case A_PEAK : sf_command (sf, SFC_SET_ADD_PEAK_CHUNK, NULL, SF_TRUE) ; break ;
		case A_CHMAP : { int map [2] = { SF_CHANNEL_MAP_LEFT, SF_CHANNEL_MAP_RIGHT } ; sf_command (sf, SFC_SET_CHANNEL_MAP_INFO, map, sizeof (map)) ; } break ;
		case A_DITHER : { SF_DITHER_INFO di ; memset (&di, 0, sizeof (di)) ; di.type = SFD_WHITE ; di.level = 0.5 ; sf_command (sf, SFC_SET_DITHER_ON_WRITE, &di, sizeof (di)) ; sf_command (sf, SFC_SET_DITHER_ON_READ, &di, sizeof (di)) ; } break ;
		case A_ITERATE : { SF_CHUNK_ITERATOR *it = sf_get_chunk_iterator (sf, NULL) ; int g = 0 ; while (it && g ++ < 100) { SF_CHUNK_INFO ci ; memset (&ci, 0, sizeof (ci)) ; sf_get_chunk_size (it, &ci) ; it = sf_next_chunk_iterator (it) ; } } break ;
		}
	vl_inlib -- ;
}

static void alloc_history (const char *fmtname, int mode, unsigned mask, const int *order, int norder, int with_io)
{	const Fmt *f = fmt_by_name (fmtname) ; SF_INFO info ; SNDFILE *sf ; int rc ; short buf [64] ;
	if (! f) return ;
	F = f ; CH = 2 ; snprintf (RS, sizeof (RS), "%s|alloc-history", rt_fam (f)) ;
	memset (&plan, 0, sizeof (plan)) ; begin_history () ;
	for (int i = 0 ; i < 64 ; i++) buf [i] = (short) (i * 100) ;
	if (mode == SFM_RDWR)
	{	/* an existing file to open */
		md_reset (&dev) ; rt_info (&info, f, 2, 44100) ; sf = md_open (&dev, SFM_WRITE, &info) ; if (! sf) return ;
		vl_write (sf, T_SHORT, 1, buf, 8) ; INLIB (sf_close (sf)) ; md_rewind (&dev) ; begin_history () ;
		rt_info_read (&info, f, 2, 44100) ;
		}
	else { md_reset (&dev) ; rt_info (&info, f, 2, 44100) ; }
	sf = md_open (&dev, mode, &info) ;
	if (! sf) { after_close_checks (0, 0, "after a refused open") ; return ; }
	if (order) for (int k = 0 ; k < norder ; k++) do_alloc_action (sf, order [k]) ;
	else for (int a = 0 ; a < A_N ; a++) if (mask & (1u << a)) do_alloc_action (sf, a) ;
	if (with_io) { vl_write (sf, T_SHORT, 1, buf, 16) ; if (mode == SFM_RDWR) { INLIB (sf_seek (sf, 0, SEEK_SET | SFM_READ)) ; vl_read (sf, T_SHORT, 1, buf, 4) ; } }
	INLIB (rc = sf_close (sf)) ;
	after_close_checks (rc, 0, "after sf_close of an allocating history") ;
	vl_count_transitions (1) ;
}

static void run_alloc_histories (void)
{	static const char *fmts [] = { "wav/pcm_16/file", "wav/float/file", "aiff/pcm_16/file", "aiff/float/file", "caf/pcm_16/file", "caf/alac_16/file", "rf64/pcm_16/file", "wavex/pcm_24/file", NULL } ;
	static const int modes [2] = { SFM_WRITE, SFM_RDWR } ;
	/* one case per history, so that a violation is replayable from its own spec */
	for (int fi = 0 ; fmts [fi] ; fi++)
		for (int mi = 0 ; mi < 2 ; mi++)
			for (int with_io = 0 ; with_io < 2 ; with_io++)
			{	for (unsigned mask = 0 ; mask < (1u << A_N) ; mask++)
				{	if (! vl_peek ()) { vl_skip (1) ; continue ; }
					if (vl_case ("C16 A fmt=%s mode=%d io=%d mask=0x%x", fmts [fi], modes [mi], with_io, mask))
					{	alloc_history (fmts [fi], modes [mi], mask, NULL, 0, with_io) ;
						vl_root_count ("alloc-histories") ; vl_count_extra (0, 1) ; vl_count_states (1) ; vl_end (1, mask) ;
						}
					}
				for (int a = 0 ; a < A_N ; a++) for (int b = 0 ; b < A_N ; b++) for (int c = 0 ; c < A_N ; c++)
				{	int order [3] = { a, b, c } ; if (a == b || b == c || a == c) continue ;
					if (! vl_peek ()) { vl_skip (1) ; continue ; }
					if (vl_case ("C16 O fmt=%s mode=%d io=%d order=%s,%s,%s", fmts [fi], modes [mi], with_io, a_names [a], a_names [b], a_names [c]))
					{	alloc_history (fmts [fi], modes [mi], 0, order, 3, with_io) ;
						vl_root_count ("alloc-histories") ; vl_count_extra (0, 1) ; vl_count_states (1) ; vl_end (1, a * 100 + b * 10 + c) ;
						}
					}
				}
}

/* ---------------------------------------------------------------- C16 (b): malformed inputs rejected at different parse depths */

static long probes_done ;

static const unsigned char *probe_rsrc ; static sf_count_t probe_rsrc_len = -1 ;	/* >= 0: resource fork to use instead of the seed's */
static void open_probe (const unsigned char *img, sf_count_t len, int mode, int route)
{	SF_INFO info ; SNDFILE *sf ; int rc = 0 ;
	clear_plan () ; ROUTE = route ; begin_history () ;
	rt_info_read (&info, F, CH, fmt_default_rate (F)) ;
	if (route == R_VIO)
	{	md_set (&dev, img, len) ; dev.fault = NULL ; dev.log_on = 0 ; dev.budget = 20000 + 64 * ((long) len + 60000) ; sf = md_open (&dev, mode, &info) ; }
	else
	{	scratch_clean () ; scratch_paths () ; put_file (scratch_path, img, len) ;
		if (probe_rsrc_len >= 0) put_file (scratch_rsrc, probe_rsrc, probe_rsrc_len) ; else if (seed_rsrc) put_file (scratch_rsrc, seed_rsrc, seed_rsrc_len) ;
		splan.budget = 20000 + 64 * ((long) len + 60000) ; sio_set_fault (sys_hook, NULL) ;
		INLIB (sf = sf_open (scratch_path, mode, &info)) ;
		}
	if (sf)
	{	if (info.channels >= 1 && info.channels <= 1024)
		{	static short buf [4 * 1024 + 16] ; vl_read (sf, T_SHORT, 1, buf, 4) ; }
		INLIB (rc = sf_close (sf)) ;
		}
	if (route == R_PATH) sio_set_fault (NULL, NULL) ;
	after_close_checks (rc, 0, sf ? "after sf_close of a damaged file" : "after the refused open of a damaged file") ;
	probes_done ++ ; vl_count_transitions (1) ;
	probe_rsrc_len = -1 ;
}

static void malformed_sweep (void)	/* SD2 only (needs a path): the other formats get the C03 families */
{	static const int modes [2] = { SFM_READ, SFM_RDWR } ; unsigned char *img = malloc (seed_rsrc_len + 1) ; int nvals = vl_opts.thorough ? 4 : 2 ;
	if (! seed_rsrc || seed_rsrc_len <= 0) { free (img) ; return ; }
	/* SD2's header is its resource fork: every truncation and every byte of the fork, the data fork left as written */
	for (int mi = 0 ; mi < 2 ; mi++)
		for (sf_count_t n = 0 ; n <= seed_rsrc_len ; n++)
		{	if (! vl_peek ()) { vl_skip (1) ; continue ; }
			if (vl_case ("C16 M fmt=%s ch=%d route=path mode=%d resource-fork-truncated-to=%lld", F->name, CH, modes [mi], (long long) n))
			{	memcpy (img, seed_rsrc, n) ; probe_rsrc = img ; probe_rsrc_len = n ; open_probe (seed, seed_len, modes [mi], R_PATH) ;
				vl_root_count (F->name) ; vl_count_extra (1, 1) ; vl_count_states (1) ; vl_end (1, n) ;
				}
			}
	for (int mi = 0 ; mi < (vl_opts.thorough ? 2 : 1) ; mi++)
		for (sf_count_t q = 0 ; q < seed_rsrc_len ; q++)
			for (int v = 0 ; v < nvals ; v++)
			{	unsigned char nb = v == 0 ? 0x00 : v == 1 ? 0xFF : v == 2 ? seed_rsrc [q] ^ 0x01 : seed_rsrc [q] ^ 0x80 ;
				if (nb == seed_rsrc [q]) continue ;
				if (! vl_peek ()) { vl_skip (1) ; continue ; }
				if (vl_case ("C16 B fmt=%s ch=%d route=path mode=%d resource-fork-byte=%lld value=0x%02x", F->name, CH, modes [mi], (long long) q, nb))
				{	memcpy (img, seed_rsrc, seed_rsrc_len) ; img [q] = nb ; probe_rsrc = img ; probe_rsrc_len = seed_rsrc_len ; open_probe (seed, seed_len, modes [mi], R_PATH) ;
					vl_root_count (F->name) ; vl_count_extra (1, 1) ; vl_count_states (1) ; vl_end (1, q * 256 + nb) ;
					}
				}
	free (img) ;
}

/* ---- C16 (b'): the C03 input families (every catalogue format, metadata-rich and hand-built files; truncations, byte and word
** replacements, chunk edits, unconstrained bytes), each opened, read from and closed with the accounting on */

static void probe_image (const Seed *s, const unsigned char *img, sf_count_t len, int mode, int route)
{	SF_INFO info ; SNDFILE *sf ; int rc = 0 ;
	clear_plan () ; ROUTE = route ; begin_history () ;
	memset (&info, 0, sizeof (info)) ;
	if (s->raw_format) { info.format = s->raw_format ; info.channels = s->raw_ch ; info.samplerate = s->raw_rate ; }
	if (route == R_VIO)
	{	md_set (&dev, img, len) ; dev.fault = NULL ; dev.log_on = 0 ; dev.budget = 20000 + 64 * ((long) len + 60000) ; sf = md_open (&dev, mode, &info) ; }
	else
	{	scratch_clean () ; snprintf (scratch_path, sizeof (scratch_path), "%s/f.dat", scratch_dir) ; put_file (scratch_path, img, len) ;
		splan.budget = 20000 + 64 * ((long) len + 60000) ; sio_set_fault (sys_hook, NULL) ;
		INLIB (sf = sf_open (scratch_path, mode, &info)) ;
		}
	if (sf)
	{	if (info.channels >= 1 && info.channels <= 1024)
		{	static short buf [4 * 1024 + 16] ; int rounds = 0 ;
			vl_read (sf, T_SHORT, 1, buf, 4) ; INLIB (sf_get_string (sf, SF_STR_TITLE)) ;
			while (rounds ++ < 16 && vl_read (sf, T_SHORT, 0, buf, 4096 - 4096 % info.channels) > 0) ;	/* the rest of a small file */
			}
		INLIB (rc = sf_close (sf)) ;
		}
	if (route == R_PATH) sio_set_fault (NULL, NULL) ;
	after_close_checks (rc, 0, sf ? "after sf_close of a damaged file" : "after the refused open of a damaged file") ;
	probes_done ++ ; vl_count_transitions (1) ; vl_count_states (1) ; vl_count_extra (1, 1) ;
}

static void c16_mutant (const Seed *s, const Mut *m, int routes_mask, int pairs)
{	static unsigned char *work ; static sf_count_t work_cap ; char desc [200] ; int described = 0 ; sf_count_t len = -1 ;
	/* replaying one spec: do not format the millions of specs of the other seeds and families */
	if (vl_replaying ())
	{	static const Seed *last ; static int seed_matches ; char tag [96] ;
		if (last != s) { snprintf (tag, sizeof (tag), "seed=%s fam=", s->name) ; seed_matches = strstr (vl_opts.replay, tag) != NULL ; last = s ; }
		if (! seed_matches) return ;
		snprintf (tag, sizeof (tag), " fam=%s ", hc_family (m)) ; if (! strstr (vl_opts.replay, tag)) return ;
		}
	/* executions: read mode on virtual I/O for every mutant; read mode on a real path where C03 also uses descriptors; read/write mode for truncations and chunk edits */
	int plan_n = 0, plan_mode [3], plan_route [3] ;
	(void) pairs ;
	plan_mode [plan_n] = SFM_READ ; plan_route [plan_n ++] = R_VIO ;
	if (routes_mask & (1 << HR_FD)) { plan_mode [plan_n] = SFM_READ ; plan_route [plan_n ++] = R_PATH ; }
	if (m->kind == M_IDENT || m->kind == M_TRUNC || (m->kind >= M_CDEL && m->kind <= M_CSHRINK) || vl_opts.thorough
		|| ((m->kind == M_BYTE || m->kind == M_W16 || m->kind == M_W32) && hc_is_reference (s)))	/* quick: byte / word edits of the reference seeds too (this is where the failed read/write opens that rewrote the header were) */
	{	plan_mode [plan_n] = SFM_RDWR ; plan_route [plan_n ++] = R_VIO ; }
	for (int k = 0 ; k < plan_n ; k++)
	{	if (! vl_peek ()) { vl_skip (1) ; continue ; }
		if (! described) { hc_describe (m, desc, sizeof (desc)) ; described = 1 ; }
		if (vl_case ("C16 X seed=%s fam=%s %s route=%s mode=%d", s->name, hc_family (m), desc, route_names [plan_route [k]], plan_mode [k]))
		{	if (len < 0) { if (2 * s->len + 8192 > work_cap) { work_cap = 4 * s->len + 16384 ; work = realloc (work, work_cap) ; } len = hc_materialise (s, m, work) ; }
			vl_root_count (s->fam) ;
			snprintf (RS, sizeof (RS), "%s|damaged-file|%s", s->fam, hc_family (m)) ;
			probe_image (s, work, len, plan_mode [k], plan_route [k]) ;
			vl_end (1, vl_hash_u64 (route_calls (), m->kind)) ;
			}
		}
}

/* ---------------------------------------------------------------- C16 (d): every bounded call history ending in sf_close */

enum { H_READ = 0, H_WRITE, H_SEEK0, H_SEEKBAD, H_BADCMD, H_STRING, H_BADSTRING, H_UPDATE, H_ITER, H_SETCHUNK, H_NOPS } ;
static const char *h_names [H_NOPS] = { "read3", "write3", "seek0", "seek-beyond", "bad-command", "set-title", "set-bad-string-id", "update-header", "iterate-chunks", "set-chunk" } ;

static void do_history_op (SNDFILE *sf, int op)
{	short buf [3 * 2] = { 100, -100, 200, -200, 300, -300 } ; SF_CHUNK_INFO ci ; char d [8] = "payload" ;
	switch (op)
	{	case H_READ : vl_read (sf, T_SHORT, 1, buf, 3) ; break ;
		case H_WRITE : vl_write (sf, T_SHORT, 1, buf, 3) ; break ;
		case H_SEEK0 : INLIB (sf_seek (sf, 0, SEEK_SET)) ; break ;
		case H_SEEKBAD : INLIB (sf_seek (sf, seed_frames + 500, SEEK_SET)) ; break ;
		case H_BADCMD : INLIB (sf_command (sf, 0x7777, NULL, 0)) ; break ;
		case H_STRING : INLIB (sf_set_string (sf, SF_STR_TITLE, "history title")) ; break ;
		case H_BADSTRING : INLIB (sf_set_string (sf, 9999, "x")) ; break ;
		case H_UPDATE : INLIB (sf_command (sf, SFC_UPDATE_HEADER_NOW, NULL, 0)) ; break ;
		case H_ITER : { SF_CHUNK_ITERATOR *it ; int g = 0 ; INLIB (it = sf_get_chunk_iterator (sf, NULL)) ; while (it && g ++ < 20) INLIB (it = sf_next_chunk_iterator (it)) ; } break ;
		default : memset (&ci, 0, sizeof (ci)) ; memcpy (ci.id, "hist", 4) ; ci.id_size = 4 ; ci.data = d ; ci.datalen = 8 ; INLIB (sf_set_chunk (sf, &ci)) ; break ;
		}
}

static long histories_done ;
static void call_history (int mode, const int *ops, int nops)
{	SF_INFO info ; SNDFILE *sf ; int rc = 0 ;
	clear_plan () ; ROUTE = F->needs_path ? R_PATH : R_VIO ; begin_history () ;
	route_prepare (mode != SFM_WRITE, NULL, 0) ;
	if (mode == SFM_WRITE) rt_info (&info, F, CH, fmt_default_rate (F)) ; else rt_info_read (&info, F, CH, fmt_default_rate (F)) ;
	sf = route_open (mode, &info) ;
	if (sf) { for (int k = 0 ; k < nops ; k++) do_history_op (sf, ops [k]) ; INLIB (rc = sf_close (sf)) ; }
	if (ROUTE == R_PATH) sio_set_fault (NULL, NULL) ;
	after_close_checks (rc, 0, sf ? "after sf_close of a call history" : "after a refused open") ;
	histories_done ++ ; vl_count_transitions (nops + 2) ;
}

static void run_call_histories (void)
{	static const int modes [3] = { SFM_READ, SFM_WRITE, SFM_RDWR } ; int depth = vl_opts.thorough ? 4 : 3 ;
	/* one case per history (length 0 = close at once), so that a violation is replayable from its own spec */
	for (int mi = 0 ; mi < 3 ; mi++)
		for (int len = 0 ; len <= depth ; len++)
		{	long cnt = 1 ; for (int d = 0 ; d < len ; d++) cnt *= H_NOPS ;
			for (long c = 0 ; c < cnt ; c++)
			{	long r = c ; char desc [120] = "" ; int ops [4] = { 0, 0, 0, 0 } ;
				if (! vl_peek ()) { vl_skip (1) ; continue ; }
				for (int d = 0 ; d < len ; d++) { ops [d] = r % H_NOPS ; r /= H_NOPS ; }
				for (int d = 0 ; d < len ; d++) { strncat (desc, h_names [ops [d]], sizeof (desc) - strlen (desc) - 2) ; strncat (desc, ",", sizeof (desc) - strlen (desc) - 1) ; }
				if (vl_case ("C16 D fmt=%s ch=%d mode=%d ops=%s", F->name, CH, modes [mi], len ? desc : "(close at once)"))
				{	snprintf (RS, sizeof (RS), "%s|call-history", rt_fam (F)) ;
					call_history (modes [mi], ops, len) ;
					vl_root_count ("call-histories") ; vl_count_extra (2, 1) ; vl_count_states (1) ; vl_end (1, vl_hash_u64 (c, len)) ;
					}
				}
			}
}

/* ---------------------------------------------------------------- driver */

static const char *history_formats [] = { "wav/pcm_16/file", "wav/float/file", "wav/ima_adpcm/file", "aiff/pcm_16/file", "aiff/ima_adpcm/file", "caf/alac_16/file", "caf/pcm_16/file", "au/ulaw/file",
	"w64/pcm_16/file", "rf64/pcm_24/file", "paf/pcm_24/file", "sds/pcm_16/file", "voc/pcm_u8/file", "raw/gsm610/file", "sd2/pcm_16/file", NULL } ;

/* ---- C15: every conversion loop when the device stops transferring.
** Each (encoding, byte order, caller type, direction) pair has its own chunking loop in the library; the single-fault sweeps above walk
** them for 48 representative formats with one caller type. Here every catalogue format x four caller types x {write, read} gets the one
** fault that a loop can fail to notice: from some call on, the device accepts / delivers nothing (0 bytes, no error code). The transfer
** that follows spans several staging chunks; it must come back within the I/O-call budget with a count inside the request, and sf_close
** must come back and release everything. */
static int stall_on, stall_dir ;
static int stall_hook (MemDev *md, int kind, sf_count_t requested, sf_count_t *answer, void *user)
{	(void) md ; (void) requested ; (void) user ;
	if (! stall_on || kind != (stall_dir ? MD_READ : MD_WRITE)) return 0 ;
	faults_delivered ++ ; *answer = 0 ; return 1 ;
}

static void stall_family (void)
{	static double zbuf [9000 + 64] ; static const char *dn [2] = { "write", "read" } ;
	for (int fi = 0 ; fi < fmt_count ; fi++)
	{	const Fmt *f = &fmt_list [fi] ; unsigned char *img = NULL ; sf_count_t img_len = 0 ; int ch ;
		if (f->needs_path || (f->format & SF_FORMAT_ENDMASK) == SF_ENDIAN_CPU) continue ;
		if (! vl_opts.thorough && (f->format & SF_FORMAT_ENDMASK) == SF_ENDIAN_LITTLE && (f->format & SF_FORMAT_TYPEMASK) != SF_FORMAT_RAW) continue ;	/* quick: default and big-endian, raw in all */
		ch = rt_accepts (f, 2, fmt_default_rate (f)) ? 2 : 1 ;
		for (int dir = 0 ; dir < 2 ; dir++) for (int type = 0 ; type < T_NTYPES ; type++)
		{	SF_INFO info ; SNDFILE *sf ; sf_count_t n ; long items = 9000 ; int rc ;
			if (! vl_case ("C15 Z fmt=%s dir=%s type=%s", f->name, dn [dir], type_names [type])) continue ;
			F = f ; CH = ch ; B = fmt_block (f, ch, fmt_default_rate (f)) ;
			snprintf (RS, sizeof (RS), "%s|vio|stalled-%s", rt_fam (f), dn [dir]) ;
			vl_root_count (f->name) ; clear_plan () ; ROUTE = R_VIO ; begin_history () ;
			if (dir == 1 && ! img)
			{	/* the file to read: 5000 frames written by the library */
				md_reset (&dev) ; dev.fault = NULL ; dev.budget = 0 ; rt_info (&info, f, ch, fmt_default_rate (f)) ; sf = md_open (&dev, SFM_WRITE, &info) ;
				if (sf) { vl_write (sf, T_SHORT, 0, wdata, 10000) ; INLIB (sf_close (sf)) ; img_len = dev.len ; img = malloc (dev.len + 1) ; memcpy (img, dev.data, dev.len) ; }
				begin_history () ;
				}
			stall_on = 0 ; stall_dir = dir ;
			if (dir == 0) { md_reset (&dev) ; rt_info (&info, f, ch, fmt_default_rate (f)) ; }
			else { if (! img) { vl_end (0, 0) ; continue ; } md_set (&dev, img, img_len) ; rt_info_read (&info, f, ch, fmt_default_rate (f)) ; }
			dev.fault = stall_hook ; dev.budget = 20000 + (long) img_len ;	/* a 9000-item transfer needs a few dozen callbacks: a loop that does not notice the stall is cut off quickly */
			sf = md_open (&dev, dir ? SFM_READ : SFM_WRITE, &info) ;
			if (! sf) { vl_note ("open refused") ; dev.fault = NULL ; vl_end (0, 0) ; continue ; }
			memset (zbuf, 0, sizeof (zbuf)) ;	/* every case starts from the same bytes: a replay of one case is the case */
			if (dir == 0) vl_write (sf, type, 0, zbuf, 3 * ch) ; else vl_read (sf, type, 0, zbuf, 3 * ch) ;
			stall_on = 1 ;
			{	GBuf g ; gb_new (&g, 32, items * 8, 32, 0x4D) ; memset (gb_ptr (&g), 0, items * 8) ;
				n = dir == 0 ? vl_write (sf, type, 0, gb_ptr (&g), items) : vl_read (sf, type, 0, gb_ptr (&g), items) ;
				if (gb_check (&g)) V15 ("transfer-outside-request", "guard bytes around the caller's buffer were modified") ;
				gb_free (&g) ;
				}
			if (n < 0 || n > items) V15 ("count-out-of-range", "%s of %ld items on a device that transfers nothing returned %lld", dn [dir], items, (long long) n) ;
			INLIB (rc = sf_close (sf)) ; (void) rc ;
			stall_on = 0 ; dev.fault = NULL ;
			after_close_checks (rc, 0, "close after the device stopped transferring") ;
			vl_end (1, (uint64_t) n) ;
			}
		free (img) ;
		}
}

void harness_run (void)
{	is_c16 = ! strcmp (vl_opts.prop, "C16") ;
	fmt_build () ; md_init (&dev) ; scratch_init () ;
	{	const char *t = getenv ("TMPDIR") ; if (t && t [0] && chdir (t) != 0) { /* stay */ } }	/* the library's fallback for temporary files is the current directory */
	for (int i = 0 ; i < 12000 ; i++) wdata [i] = (short) (((i * 37) % 2001 - 1000) * 11) ;
	if (is_c16) run_alloc_histories () ;
	else stall_family () ;
	for (int i = 0 ; rep_formats [i] ; i++)
	{	int in_hist = 0 ;
		F = fmt_by_name (rep_formats [i]) ;
		if (! F) continue ;
		CH = rt_accepts (F, 2, fmt_default_rate (F)) ? 2 : 1 ; B = fmt_block (F, CH, fmt_default_rate (F)) ;
		snprintf (RS, sizeof (RS), "%s", rt_fam (F)) ;
		if (! build_seed ()) continue ;
		for (int route = 0 ; route < R_NROUTES ; route++)
		{	if (route == R_VIO && F->needs_path) continue ;
			for (int w = 0 ; w < W_N ; w++)
			{	if (w == W_RDWR && ! F->gran) continue ;
				ROUTE = route ;
				snprintf (RS, sizeof (RS), "%s|%s|%s", rt_fam (F), route_names [route], w_names [w]) ;
				fault_sweep (w) ;
				}
			}
		snprintf (RS, sizeof (RS), "%s|pipe", rt_fam (F)) ;
		pipe_sweep () ;
		if (is_c16)
		{	snprintf (RS, sizeof (RS), "%s|damaged-file", rt_fam (F)) ;
			if (F->needs_path) malformed_sweep () ;	/* the other formats get the larger hostile-input families below */
			for (int k = 0 ; history_formats [k] ; k++) if (! strcmp (history_formats [k], F->name)) in_hist = 1 ;
			if (in_hist) run_call_histories () ;
			}
		}
	if (is_c16)
	{	/* every catalogue format x mode through virtual I/O, closed at once (formats that need a path included: they must be refused cleanly) */
		static const int modes [3] = { SFM_WRITE, SFM_RDWR, SFM_READ } ;
		for (int i = 0 ; i < fmt_count ; i++)
			for (int mi = 0 ; mi < 3 ; mi++)
				if (vl_case ("C16 V fmt=%s mode=%d open-and-close-at-once route=vio", fmt_list [i].name, modes [mi]))
				{	SF_INFO info ; SNDFILE *sf ; int rc = 0 ;
					F = &fmt_list [i] ; CH = rt_accepts (F, 2, fmt_default_rate (F)) ? 2 : 1 ; snprintf (RS, sizeof (RS), "%s|open-close", rt_fam (F)) ;
					clear_plan () ; ROUTE = R_VIO ; begin_history () ; md_reset (&dev) ; dev.fault = NULL ; dev.budget = 4000000 ;
					if (modes [mi] == SFM_READ) { rt_info_read (&info, F, CH, fmt_default_rate (F)) ; md_set (&dev, "not a sound file, sixty-four bytes of text to be rejected........", 64) ; }
					else rt_info (&info, F, CH, fmt_default_rate (F)) ;
					sf = md_open (&dev, modes [mi], &info) ;
					if (sf) INLIB (rc = sf_close (sf)) ;
					after_close_checks (rc, 0, sf ? "after sf_close of an untouched handle" : "after a refused open") ;
					vl_root_count (F->name) ; vl_count_states (1) ; vl_count_transitions (2) ;
					vl_end (1, sf != NULL) ;
					}
		hc_build_seeds () ;
		for (int i = 0 ; i < hc_nseeds ; i++) hc_seed_families (&hc_seeds [i], c16_mutant) ;
		hc_unconstrained (c16_mutant) ;
		}
	scratch_clean () ; rmdir (scratch_dir) ;
}
