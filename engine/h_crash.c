/* h_crash.c - C11: after a header update the bytes stored so far are already a valid file.
** Complete enumeration of the crash points of a 4-write history (after each SFC_UPDATE_HEADER_NOW /
** after each write in auto mode; thorough: after every device write callback inside an update).
*/
#include "vlib.h"
#include "rt_common.h"

const char *harness_name = "h_crash" ;

static MemDev dev, snap ;

typedef struct { unsigned char *bytes ; sf_count_t len ; long n ; } Image ;	/* device image after n frames were written */

#define MAXMID 96
static Image mid [MAXMID] ; static int nmid, mid_on ;

static void on_write (MemDev *md, sf_count_t off, sf_count_t n, void *user)
{	(void) off ; (void) n ; (void) user ;
	if (! mid_on || nmid >= MAXMID) return ;
	mid [nmid].bytes = malloc (md->len + 1) ; memcpy (mid [nmid].bytes, md->data, md->len) ; mid [nmid].len = md->len ; nmid ++ ;
}

static void take (Image *im, long n)
{	im->bytes = malloc (dev.len + 1) ; memcpy (im->bytes, dev.data, dev.len) ; im->len = dev.len ; im->n = n ;
}

static int app_entry = -1 ;	/* >= 0: the parts are appended to an existing file (APP_PRE frames and, with meta, a string chunk behind them) re-opened SFM_RDWR,
				** through typed writer number app_entry (type = entry / 2, frames variant = entry & 1) */
#define APP_PRE 7
static const unsigned char *raw_bytes ; static int raw_bw ;	/* when set, the parts are written with sf_write_raw from these encoded bytes (raw_bw bytes per frame) */

/* writes the four parts; mode 0: no updates, 1: SFC_UPDATE_HEADER_NOW after each part, 2: SFC_SET_UPDATE_HEADER_AUTO */
static int write_history (const Fmt *f, int ch, int mode, int meta, const long *parts, const short *data, Image *images, int with_mid)
{	SF_INFO info ; SNDFILE *sf ; long n = 0 ; int rc ;
	md_reset (&dev) ; rt_info (&info, f, ch, fmt_default_rate (f)) ;
	sf = md_open (&dev, SFM_WRITE, &info) ;
	if (! sf) return -1 ;
	if (meta)
	{	INLIB (sf_set_string (sf, SF_STR_TITLE, "crash point title")) ; INLIB (sf_set_string (sf, SF_STR_ARTIST, "x")) ;
		INLIB (sf_set_string (sf, SF_STR_COMMENT, "a comment of odd length.")) ;
		}
	if (app_entry >= 0)
	{	sf_count_t r ;
		if (vl_write (sf, T_SHORT, 1, data, APP_PRE) != APP_PRE) { INLIB (sf_close (sf)) ; return -2 ; }
		if (meta) INLIB (sf_set_string (sf, SF_STR_COPYRIGHT, "a string behind the audio")) ;
		INLIB (sf_close (sf)) ;
		md_rewind (&dev) ; rt_info_read (&info, f, ch, fmt_default_rate (f)) ; sf = md_open (&dev, SFM_RDWR, &info) ;
		if (! sf) return -5 ;
		INLIB (r = sf_seek (sf, 0, SEEK_END | SFM_WRITE)) ; if (r != APP_PRE) { INLIB (sf_close (sf)) ; return -5 ; }
		n = APP_PRE ;
		}
	if (mode == 2) INLIB (sf_command (sf, SFC_SET_UPDATE_HEADER_AUTO, NULL, SF_TRUE)) ;
	for (int p = 0 ; p < 4 ; p++)
	{	sf_count_t w ;
		if (mode == 2 && with_mid) { dev.on_write = on_write ; mid_on = 1 ; }
		if (raw_bytes) { INLIB (w = sf_write_raw (sf, raw_bytes + n * raw_bw, parts [p] * raw_bw)) ; w = w >= 0 ? w / raw_bw : w ; }
		else if (app_entry >= 0)
		{	int type = app_entry / 2, fv = app_entry & 1 ; long items = parts [p] * ch ; void *tb = malloc (items * 8 + 8) ;
			for (long i = 0 ; i < items ; i++)
			{	short v = data [n * ch + i] ;
				if (type == T_SHORT) ((short *) tb) [i] = v ; else if (type == T_INT) ((int *) tb) [i] = (int) ((uint32_t) (int) v << 16) ;
				else if (type == T_FLOAT) ((float *) tb) [i] = (float) v / 32768.0f ; else ((double *) tb) [i] = (double) v / 32768.0 ;
				}
			w = vl_write (sf, type, fv, tb, fv ? parts [p] : items) ; if (! fv && w >= 0) w /= ch ;
			free (tb) ;
			}
		else w = vl_write (sf, T_SHORT, 1, data + n * ch, parts [p]) ;
		mid_on = 0 ;
		if (w != parts [p]) { INLIB (sf_close (sf)) ; return -2 ; }
		n += parts [p] ;
		if (meta >= 2 && (p == 0 || p == 2))
		{	/* the string table changes while audio is already in the file: the next header update has a header of another length to write */
			static const char *repl [2][2] = { { "t", "" }, { "a replacement title which is a good deal longer than the one set first", "crash point title" } } ;
			INLIB (sf_set_string (sf, SF_STR_TITLE, repl [meta - 2][p / 2])) ;
			}
		if (mode == 1 || mode >= 3)
		{	/* modes 3 / 4: the write pointer is parked at frame 0 / in the middle while the header is updated, and moved back to the end afterwards */
			sf_count_t sk = 0 ;
			if (mode >= 3) { INLIB (sk = sf_seek (sf, mode == 3 ? 0 : n / 2, SEEK_SET)) ; if (sk < 0) { INLIB (sf_close (sf)) ; return -3 ; } }
			if (with_mid) { dev.on_write = on_write ; mid_on = 1 ; }
			INLIB (sf_command (sf, SFC_UPDATE_HEADER_NOW, NULL, 0)) ;
			mid_on = 0 ;
			if (mode >= 3) { INLIB (sk = sf_seek (sf, 0, SEEK_END)) ; if (sk != n) { INLIB (sf_close (sf)) ; return -4 ; } }
			}
		if (mode != 0 && images) take (&images [p], n) ;
		}
	INLIB (rc = sf_close (sf)) ;
	return rc ;
}

static long decode_all (const unsigned char *bytes, sf_count_t len, const Fmt *f, int ch, short **out, SF_INFO *ri, const char **err)
{	SNDFILE *sf ; long F ; sf_count_t r ;
	md_set (&snap, bytes, len) ; snap.budget = 4096 + 64 * (len + 100000) ;
	rt_info_read (ri, f, ch, fmt_default_rate (f)) ;
	sf = md_open (&snap, SFM_READ, ri) ;
	if (! sf) { *err = sf_strerror (NULL) ; return -1 ; }
	F = ri->frames ;
	if (F < 0 || F > 1000000) { INLIB (sf_close (sf)) ; *err = "absurd frame count" ; return -2 ; }
	*out = calloc ((F + 8) * ch, 2) ;
	r = vl_read (sf, T_SHORT, 1, *out, F + 4) ;
	INLIB (sf_close (sf)) ;
	if (r != F) { *err = "fewer frames readable than reported" ; return -3 - r ; }
	return F ;
}

static void c11_case (const Fmt *f, int ch, int mode, int meta, int seq)
{	int rate = fmt_default_rate (f), B = fmt_block (f, ch, rate), rc ; long parts [4], total = 0 ; short *data, *fin = NULL, *plain = NULL ; Image images [4] ;
	char rs [96] ; SF_INFO fi, pi ; const char *err = "" ; long Ffin, Fplain ; uint64_t oh = VL_H0 ; unsigned char *raw_buf = NULL ;
	int with_mid = vl_opts.thorough ;

	snprintf (rs, sizeof (rs), "%s|%s|%s", rt_fam (f), rt_chclass (ch), mode == 1 ? "update-now" : mode == 2 ? "auto" : "update-now-after-seek") ;
	if (B > 1 && seq == 1) { parts [0] = B ; parts [1] = B ; parts [2] = 1 ; parts [3] = B - 1 ; }	/* calls that end exactly on a block boundary: B, 2B, 2B+1, 3B */
	else if (B > 1) { parts [0] = B + 3 ; parts [1] = 1 ; parts [2] = 2 * B - 1 ; parts [3] = 3 ; }
	else { parts [0] = 5 ; parts [1] = 1 ; parts [2] = 4 ; parts [3] = 3 ; }
	for (int p = 0 ; p < 4 ; p++) total += parts [p] ;
	app_entry = seq >= 3 ? seq - 3 : -1 ; if (app_entry >= 0) total += APP_PRE ;
	data = malloc (total * ch * 2) ;
	for (long i = 0 ; i < total * ch ; i++) { long fr = i / ch ; data [i] = (short) ((((fr * 37 + (i % ch) * 11) % 255) - 127) * 192 + (fr & 63)) ; }
	memset (images, 0, sizeof (images)) ; nmid = 0 ;
	raw_bytes = NULL ;
	if (seq == 2)
	{	/* the same audio through sf_write_raw: the encoded bytes are taken from the plain file the typed writes give */
		SF_INFO ri ; SNDFILE *r ; PeekState pk ;
		if (write_history (f, ch, 0, meta, parts, data, NULL, 0) != 0) { vl_note ("plain write failed") ; free (data) ; vl_end (0, 5) ; return ; }
		md_rewind (&dev) ; rt_info_read (&ri, f, ch, rate) ; r = md_open (&dev, SFM_READ, &ri) ;
		if (! r) { vl_note ("plain file does not open") ; free (data) ; vl_end (0, 6) ; return ; }
		pk_get (r, &pk, 0) ; INLIB (sf_close (r)) ;
		if (pk.blockwidth <= 0 || pk.dataoffset + total * pk.blockwidth > dev.len) { vl_note ("no fixed frame width") ; free (data) ; vl_end (0, 7) ; return ; }
		raw_buf = malloc (total * pk.blockwidth + 1) ; memcpy (raw_buf, dev.data + pk.dataoffset, total * pk.blockwidth) ; raw_bytes = raw_buf ; raw_bw = pk.blockwidth ;
		}

	rc = write_history (f, ch, mode, meta, parts, data, images, with_mid) ;
	raw_bytes = NULL ;
	if (rc == -1) { vl_note ("write-open refused") ; free (data) ; app_entry = -1 ; vl_end (0, 1) ; return ; }
	if (rc == -5) { vl_note ("the file cannot be re-opened SFM_RDWR with the write pointer at its end") ; free (data) ; app_entry = -1 ; vl_end (0, 8) ; return ; }
	if (rc == -3) { vl_note ("write-mode seek not supported by this codec") ; free (data) ; for (int p = 0 ; p < 4 ; p++) free (images [p].bytes) ; vl_end (0, 3) ; return ; }
	if (rc == -4) { vl_violation (rt_sig ("%s|seek-end-after-update", rs), "SEEK_END after the header update did not return the frames written so far") ; goto out ; }
	if (rc != 0) { vl_violation (rt_sig ("%s|write-failed", rs), "history with header updates failed (rc=%d)", rc) ; goto out ; }
	/* the finished file */
	{	unsigned char *fb = malloc (dev.len + 1) ; sf_count_t fl = dev.len ; memcpy (fb, dev.data, fl) ;
		Ffin = decode_all (fb, fl, f, ch, &fin, &fi, &err) ;
		free (fb) ;
		}
	if (Ffin < 0) { vl_violation (rt_sig ("%s|finished-unreadable", rs), "finished file: %s", err) ; goto out ; }
	/* requesting header updates never changes the audio the finished file contains */
	rc = write_history (f, ch, 0, meta, parts, data, NULL, 0) ;
	if (rc == 0)
	{	unsigned char *pb = malloc (dev.len + 1) ; sf_count_t pl = dev.len ; memcpy (pb, dev.data, pl) ;
		Fplain = decode_all (pb, pl, f, ch, &plain, &pi, &err) ; free (pb) ;
		if (Fplain >= 0 && (Fplain != Ffin || memcmp (plain, fin, Ffin * ch * 2) != 0))
			vl_violation (rt_sig ("%s|updates-change-audio", rs), "finished file has %ld frames with updates, %ld without%s", Ffin, Fplain, Fplain == Ffin ? " (content differs)" : "") ;
		}
	/* every crash point */
	{	long n = app_entry >= 0 ? APP_PRE : 0 ;
		for (int p = 0 ; p < 4 ; p++)
		{	short *got = NULL ; SF_INFO si ; long F, lo ; char where [32] ;
			n += parts [p] ; snprintf (where, sizeof (where), "cp%d", p + 1) ;
			if (! images [p].bytes) continue ;
			F = decode_all (images [p].bytes, images [p].len, f, ch, &got, &si, &err) ;
			vl_note ("crash point %d after %ld frames: image %lld bytes -> F=%ld", p + 1, n, (long long) images [p].len, F) ;
			vl_count_transitions (1) ;
			if (F < 0)
			{	vl_violation (rt_sig ("%s|%s", rs, F == -1 ? "snapshot-unopenable" : F == -2 ? "snapshot-absurd-frames" : "snapshot-readable<F"), "after %ld frames (update %d): %s (%ld)", n, p + 1, err, F) ;
				free (got) ; continue ;
				}
			if (si.channels != fi.channels || si.samplerate != fi.samplerate || si.format != fi.format)
				vl_violation (rt_sig ("%s|snapshot-params", rs), "after %ld frames: channels %d rate %d format 0x%x, finished file %d %d 0x%x", n, si.channels, si.samplerate, si.format, fi.channels, fi.samplerate, fi.format) ;
			lo = B > 1 ? (n / B) * B : n ;
			/* DWVW (B == 0) is a bit stream staged through an internal byte buffer: any whole number of frames <= n that has reached the file */
			if (B == 0 && F >= 0 && F <= n) lo = F ;
			if (F != n && F != lo)
				vl_violation (rt_sig ("%s|snapshot-frames%s", rs, F < lo ? "-low" : "-high"), "after %ld frames (block %d): snapshot reports %ld frames (allowed: %ld or %ld)", n, B, F, n, lo) ;
			else if (F > Ffin || memcmp (got, fin, F * ch * 2) != 0)
			{	long d = F > Ffin ? Ffin : rt_first_diff (got, fin, F * ch, T_SHORT) ;
				vl_violation (rt_sig ("%s|snapshot-content", rs), "after %ld frames: snapshot item %ld differs from the finished file's", n, d) ;
				}
			oh = vl_hash_u64 (F, oh) ;
			free (got) ;
			}
		}
	/* thorough: images in the middle of an update must at least parse safely */
	for (int k = 0 ; k < nmid ; k++)
	{	short *got = NULL ; SF_INFO si ; long F = decode_all (mid [k].bytes, mid [k].len, f, ch, &got, &si, &err) ;
		vl_count_transitions (1) ; vl_count_extra (0, 1) ;
		oh = vl_hash_u64 (F, oh) ;
		free (got) ;
		}
out :
	for (int p = 0 ; p < 4 ; p++) free (images [p].bytes) ;
	for (int k = 0 ; k < nmid ; k++) free (mid [k].bytes) ;
	nmid = 0 ;
	free (data) ; free (fin) ; free (plain) ; free (raw_buf) ; app_entry = -1 ;
	vl_count_states (4) ;
	vl_end (1, oh) ;
}

void harness_run (void)
{	fmt_build () ; md_init (&dev) ; md_init (&snap) ;
	for (int fi = 0 ; fi < fmt_count ; fi++)
	{	const Fmt *f = &fmt_list [fi] ; int sub = f->format & SF_FORMAT_SUBMASK ;
		if (f->needs_path || ! f->rewritable) continue ;
		if ((f->format & SF_FORMAT_ENDMASK) == SF_ENDIAN_CPU) continue ;
		if (! vl_opts.thorough && (f->format & SF_FORMAT_ENDMASK) == SF_ENDIAN_LITTLE) continue ;
		if (sub >= SF_FORMAT_ALAC_16 && sub <= SF_FORMAT_ALAC_32) continue ;	/* assembled at close: outside the guarantee */
		for (int ch = 1 ; ch <= 2 ; ch++)
		{	if (! rt_accepts (f, ch, fmt_default_rate (f))) continue ;
			for (int mode = 1 ; mode <= 4 ; mode++)
				for (int meta = 0 ; meta < 4 ; meta++)	/* 2 / 3: a string set before the audio is replaced by a shorter / longer one between the writes */
				{	/* parking the write pointer elsewhere during the update is explored where write-mode seeks are defined: sample-granular encodings */
					if (mode >= 3 && (! f->gran || sub == SF_FORMAT_DPCM_8 || sub == SF_FORMAT_DPCM_16)) continue ;
					if (vl_case ("C11 fmt=%s ch=%d mode=%s meta=%d", f->name, ch, mode == 1 ? "update-now" : mode == 2 ? "auto" : mode == 3 ? "update-now-at-frame0" : "update-now-at-middle", meta))
					{	vl_root_count (f->name) ; c11_case (f, ch, mode, meta, 0) ; }
					if (mode <= 2 && fmt_block (f, ch, fmt_default_rate (f)) > 1 && vl_case ("C11 fmt=%s ch=%d mode=%s meta=%d seq=block-aligned", f->name, ch, mode == 1 ? "update-now" : "auto", meta))
					{	vl_root_count (f->name) ; c11_case (f, ch, mode, meta, 1) ; }
					if (mode <= 2 && f->gran && sub != SF_FORMAT_DPCM_8 && sub != SF_FORMAT_DPCM_16 && vl_case ("C11 fmt=%s ch=%d mode=%s meta=%d seq=raw-writes", f->name, ch, mode == 1 ? "update-now" : "auto", meta))
					{	vl_root_count (f->name) ; c11_case (f, ch, mode, meta, 2) ; }
					/* appending to an existing file re-opened SFM_RDWR (with meta: a string chunk lies behind its audio), through each of the eight typed writers */
					if (mode <= 2 && f->gran && sub != SF_FORMAT_DPCM_8 && sub != SF_FORMAT_DPCM_16 && ch == 2)
						for (int entry = 0 ; entry < 8 ; entry++)
							if (vl_case ("C11 fmt=%s ch=%d mode=%s meta=%d seq=append-rdwr entry=%s%s", f->name, ch, mode == 1 ? "update-now" : "auto", meta, type_names [entry / 2], (entry & 1) ? "f" : ""))
							{	vl_root_count (f->name) ; c11_case (f, ch, mode, meta, 3 + entry) ; }
					}
			}
		}
}
