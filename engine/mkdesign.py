#!/usr/bin/env python3
"""Maintenance: refresh the generated tables of DESIGN.md (seeded changes in section 9, measured cost in section 11)."""
import json, glob, os, subprocess, sys
V = os.path.dirname(os.path.dirname(os.path.abspath(__file__)))
p = os.path.join(V, "DESIGN.md"); s = open(p).read()
def put(tag, body):
    global s
    a, b = "<!-- %s:begin -->" % tag, "<!-- %s:end -->" % tag
    i, j = s.index(a) + len(a), s.index(b)
    s = s[:i] + "\n" + body.rstrip("\n") + "\n" + s[j:]
rows = ["| seeded change | reported by | what it takes to manifest |", "|---------------|-------------|---------------------------|"]
for d in sorted(glob.glob(os.path.join(V, "seeded", "*"))):
    m = json.load(open(os.path.join(d, "meta.json")))
    rows.append("| `%s` | %s | %s |" % (os.path.basename(d), ", ".join(m["caught_by"]), m["needs_to_manifest"].replace("|", "/")))
put("seeded", "\n".join(rows))
put("cost", subprocess.run([sys.executable, os.path.join(V, "engine", "mkcost.py")], stdout=subprocess.PIPE, text=True).stdout)
open(p, "w").write(s)
print("seeded rows:", len(rows) - 2)
