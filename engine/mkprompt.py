#!/usr/bin/env python3
"""Print the sub-agent prompt for seeding a property-breaking change (maintenance tool)."""
import json, sys
pid, n = sys.argv[1], sys.argv[2]
p = [json.loads(l) for l in open('/verif/properties.jsonl') if json.loads(l)['id'] == pid][0]
wt = "/tmp/mut-%s-%s" % (pid, n)
print(f"""You are helping test a verification harness for the C library libsndfile (reads/writes sampled-audio files). Your job: produce ONE realistic, subtle change to libsndfile's source that BREAKS the semantic property quoted below, while the library still compiles and its existing test suite still passes. You work only inside your own scratch git worktree; do not read or touch /verif or /repo (other than through your worktree), and do not look for any verification machinery - your change must be independent of it.

PROPERTY ({pid}: {p['title']})
{p['statement']}
Quantified over: {p['quantifier']['text']}
Code most relevant: {', '.join(p['anchors']['files'][:12])}

WORKTREE: {wt} (a git worktree of the library at its current HEAD; already created). Output directory: {wt}-out (already created).

Build and test (offline, no network):
  cmake -G Ninja -S {wt} -B {wt}/_build -DCMAKE_BUILD_TYPE=RelWithDebInfo -DCMAKE_C_FLAGS=-Wno-error >/dev/null && cmake --build {wt}/_build -j8 >/dev/null
  ctest --test-dir {wt}/_build -j8 --timeout 900      (must report 100% of 143 tests passed, both before and after your change)

What to produce:
1. A change (edit files under {wt}/src only; typically 1-10 lines) that violates the property for SOME inputs/histories but needs something specific to manifest - a particular block-boundary length, a multi-step sequence of calls, an unusual but valid input, a particular channel count or byte order, a rarely used sample type or command setting, or two cooperating sites that each look fine alone. It must NOT be something ordinary use exposes at once (the 143 existing tests must still pass), and it must not be a crash-on-every-call or a compile-time trick. Think like a plausible maintainer mistake: an off-by-one at a boundary, a wrong shift or constant in one rarely used conversion routine, state carried across calls that should be reset (or reset that should be carried), a cursor advanced before a check, a stale cached length, a missing case for one format.
2. A small standalone demonstration program demo.c (using only the public API in include/sndfile.h, writing any files it needs under {wt}-out/tmp/) that exits 0 on the unmodified library and exits non-zero (printing what went wrong) on your modified library. Build it against the static library: gcc -I{wt}/include -I{wt}/_build/include demo.c {wt}/_build/libsndfile.a -lm -o demo  (check which include dir holds sndfile.h).
3. Verify all of this yourself: (a) unmodified tree: tests pass, demo exits 0; (b) modified tree: it compiles, all 143 tests pass, demo exits non-zero.
4. Save into {wt}-out/: patch.diff (output of `git -C {wt} diff`), demo.c, and notes.txt explaining in a few lines: what the change is, which inputs/histories make it manifest, why the existing tests do not notice, and the exact commands you ran with their results.

Leave your change applied in the worktree when you finish. Do not commit. Do NOT use `git stash` (the stash is shared by all worktrees of the repository and other jobs run beside you): to test the unmodified tree use `git diff > {wt}-out/patch.diff ; git apply -R {wt}-out/patch.diff` and `git apply {wt}-out/patch.diff` to get back. Keep build output only inside {wt}/_build. Reply with a short summary (what you changed, how it manifests, verification results).""")
