/* vlib.h - common verification runtime: case enumeration / sharding / fork supervision,
** violation records, counters, in-memory device, guarded buffers, libc accounting,
** format catalogue, sample generators, SF_PRIVATE peeking.
*/
#ifndef VLIB_H
#define VLIB_H

#include <stdio.h>
#include <stdlib.h>
#include <string.h>
#include <stdint.h>
#include <stdarg.h>
#include <math.h>
#include <sndfile.h>

/* ------------------------------------------------------------------ runtime */

typedef struct
{	const char	*prop ;		/* property id, e.g. "C01" */
	int			thorough ;	/* 0 quick, 1 thorough */
	int			shard, nshards ;
	const char	*replay ;	/* spec to replay (NULL = explore) */
	uint64_t	seed ;
	double		deadline ;	/* absolute monotonic seconds at which to stop enumerating */
	int			verbose ;
} VlOpts ;

extern VlOpts vl_opts ;

/* Harness entry points provided by each h_*.c */
extern const char *harness_name ;
void harness_run (void) ;			/* enumerate all cases via vl_case()/vl_end() */

/* vl_case: start the next case. Returns 1 if the body must be executed now. */
int  vl_case (const char *fmt, ...) __attribute__ ((format (printf, 1, 2))) ;
int  vl_peek (void) ;				/* 1 if the next vl_case () would run its body (or a replay is in progress) */
void vl_skip (long n) ;				/* count n cases as seen without naming them (only after vl_peek () returned 0) */
/* vl_end: finish the case. nontrivial = counts towards distinct_nontrivial, outcome = hash of what was observed. */
void vl_end (int nontrivial, uint64_t outcome) ;
/* vl_subcase: inside a running case, name the sub-execution that follows (used as the spec of violations and crashes) */
void vl_subcase (const char *fmt, ...) __attribute__ ((format (printf, 1, 2))) ;
const char *vl_spec (void) ;		/* spec string of the running case */
int  vl_replaying (void) ;

/* record a violation of the running case. sig must be a short deterministic signature. */
void vl_violation (const char *sig, const char *fmt, ...) __attribute__ ((format (printf, 2, 3))) ;
int  vl_case_violations (void) ;	/* number recorded for the running case */
/* print a transcript line (only shown in replay / verbose mode; hashed into the transcript hash always) */
void vl_note (const char *fmt, ...) __attribute__ ((format (printf, 1, 2))) ;

/* counters that survive child crashes (shared memory) */
void vl_count_states (long n) ;
void vl_count_transitions (long n) ;
void vl_count_extra (int slot, long n) ;		/* 8 free slots */
void vl_root_count (const char *root) ;		/* per-root case counter (by name, up to 512 roots) */
void vl_not_exhaustive (const char *why) ;
int  vl_deadline_passed (void) ;
void vl_sample (const char *fmt, ...) __attribute__ ((format (printf, 1, 2))) ; /* keep up to 6 samples */

uint64_t vl_hash (const void *p, size_t n, uint64_t h) ;
#define VL_H0 1469598103934665603ULL
uint64_t vl_hash_u64 (uint64_t v, uint64_t h) ;

/* set while control is inside libsndfile (allocation / descriptor attribution) */
extern volatile int vl_inlib ;
#define INLIB(expr)	do { vl_inlib ++ ; expr ; vl_inlib -- ; } while (0)

/* ------------------------------------------------------------------ memdev */

enum { MD_READ = 0, MD_WRITE, MD_SEEK, MD_TELL, MD_LEN, MD_NKINDS } ;

typedef struct MemDev MemDev ;

/* fault answer: return 0 = default behaviour; otherwise *answer is used:
**   READ/WRITE : transfer min(*answer, default) bytes
**   SEEK       : *answer = -1 -> fail without moving ; -2 -> move but report offset+1
**   TELL       : *answer returned as is
**   LEN        : *answer returned as is
*/
typedef int (*MdFaultFn) (MemDev *md, int kind, sf_count_t requested, sf_count_t *answer, void *user) ;

typedef struct
{	unsigned char kind ; sf_count_t off, req, ans ;
} MdLogEnt ;

struct MemDev
{	unsigned char	*data ;
	sf_count_t		len, cap, pos ;
	int				seekable ;		/* 0: seek fails, tell answers from byte counter */
	long			ncb ;			/* callbacks so far */
	long			nkind [MD_NKINDS] ;
	long			budget ;		/* 0 = unlimited; exceeding -> hang violation + child exit */
	sf_count_t		harness_bytes ;	/* added to the budget base by the harness */
	MdFaultFn		fault ;
	void			*fault_user ;
	void			(*on_write) (MemDev *md, sf_count_t off, sf_count_t n, void *user) ; /* after each accepted write */
	void			*on_write_user ;
	MdLogEnt		*log ;			/* optional callback log */
	long			log_n, log_cap ;
	int				log_on ;
	sf_count_t		fixed_len ;		/* >=0: device cannot grow beyond (writes short) */
} ;

extern SF_VIRTUAL_IO md_vio ;
void md_init (MemDev *md) ;
void md_free (MemDev *md) ;
void md_reset (MemDev *md) ;						/* empty, cursor 0, counters 0, keep hooks off */
void md_set (MemDev *md, const void *bytes, sf_count_t n) ;
void md_rewind (MemDev *md) ;						/* cursor 0, counters 0 */
uint64_t md_hash (const MemDev *md) ;
SNDFILE *md_open (MemDev *md, int mode, SF_INFO *info) ;	/* sf_open_virtual wrapped in INLIB */

/* ------------------------------------------------------------------ guarded buffers */

typedef struct
{	unsigned char	*base ;		/* heap block, exact size total */
	size_t			total, pre, req, post ;
	unsigned char	canary ;
} GBuf ;

/* region [pre, pre+req) is the requested region handed to the library */
void  gb_new (GBuf *g, size_t pre, size_t req, size_t post, unsigned char canary) ;
void *gb_ptr (GBuf *g) ;
int   gb_check (const GBuf *g) ;	/* 0 ok, 1 pre damaged, 2 post damaged */
void  gb_free (GBuf *g) ;

/* ------------------------------------------------------------------ sysio accounting */

long  sio_live_blocks (void) ;		/* blocks allocated in-lib and not yet freed */
long  sio_live_bytes (void) ;
void  sio_reset_alloc (void) ;
long  sio_lib_fds_open (void) ;		/* descriptors opened in-lib and not closed */
void  sio_reset_fds (void) ;
int   sio_fd_count (void) ;			/* entries in /proc/self/fd */
const char *sio_first_live (void) ;
/* descriptor-route fault injection */
typedef int (*SioFaultFn) (int kind, int fd, sf_count_t requested, sf_count_t *answer, int *err, void *user) ;
void  sio_set_fault (SioFaultFn fn, void *user) ;
extern long sio_ncalls ;
enum { SIO_OPEN = 100, SIO_FOPEN, SIO_FWRITE, SIO_FREAD } ;	/* kinds beyond the MD_* ones */
long  sio_lib_files_open (void) ;		/* FILE streams opened in-lib and not closed */
void  sio_reset_files (void) ;
int   sio_memfd (const char *name) ;			/* harness-side descriptor */
int   sio_real_close (int fd) ;
long  sio_real_read (int fd, void *p, size_t n) ;
long  sio_real_write (int fd, const void *p, size_t n) ;
long  sio_real_lseek (int fd, long off, int whence) ;
int   sio_real_open (const char *path, int flags, int mode) ;
int   sio_real_ftruncate (int fd, long len) ;
int   sio_fd_is_open (int fd) ;
void  sio_track_close_of (int fd) ;		/* record whether the library closes this harness fd */
int   sio_was_closed_by_lib (int fd) ;

/* ------------------------------------------------------------------ peek (SF_PRIVATE, read only) */

typedef struct
{	sf_count_t	read_current, write_current, frames, dataoffset, datalength, dataend, filelength ;
	sf_count_t	header_indx, header_len ;
	int			last_op, have_written, error, channels, mode, blockwidth, bytewidth ;
	unsigned	rchunks_used, rchunks_count, wchunks_used, wchunks_count ;
	int			norm_float, norm_double, add_clipping, auto_header, scale_int_float, float_int_mult, endian ;
	uint64_t	codec_hash, container_hash ;
} PeekState ;

void pk_get (SNDFILE *sf, PeekState *st, int with_blobs) ;
uint64_t pk_meta_hash (SNDFILE *sf) ;	/* SF_INFO, settings and every metadata item the handle holds (no API calls, no side effects) */
int  pk_max_error (void) ;			/* SFE_MAX_ERROR */
int  pk_sf_buffer_len (void) ;		/* SF_BUFFER_LEN */

/* ------------------------------------------------------------------ format catalogue */

enum { T_SHORT = 0, T_INT, T_FLOAT, T_DOUBLE, T_NTYPES } ;
extern const char *type_names [T_NTYPES] ;
extern const int type_size [T_NTYPES] ;

enum { RATE_EXACT = 0, RATE_U16, RATE_F32, RATE_HTK, RATE_SDS, RATE_VOC, RATE_FIXED, RATE_NONE } ;

typedef struct
{	int		format ;			/* major | subtype | endian */
	char	name [48] ;			/* e.g. "wav/pcm_16/le" */
	/* independent traits (hand-written, from the specs / docs, see DESIGN.md section 5) */
	int		maxch ;				/* container's channel maximum (capped at 1024) */
	int		minch ;
	int		gran ;				/* 1 = sample-granular */
	int		width ;				/* significant bits of a stored sample (8,12,16,20,24,32,64) ; 0 lossy */
	int		is_float ;			/* 32 / 64 for IEEE encodings */
	int		lossless ;			/* bit k set: caller type k round-trips exactly (given masking to width) */
	int		rate_kind ;
	int		fixed_rate ;
	int		pads_odd ;			/* container pads odd data byte count and counts the pad as a frame possibly */
	int		rewritable ;		/* header can be updated in place (SFC_UPDATE_HEADER_NOW meaningful) */
	int		seekable_codec ;
	int		peak ;				/* PEAK-capable container */
	int		unsigned8 ;
	int		needs_path ;		/* SD2: resource fork, cannot live on a virtual-I/O device */
} Fmt ;

extern Fmt *fmt_list ; extern int fmt_count ;
void fmt_build (void) ;				/* enumerate from the library, attach traits */
const Fmt *fmt_find (int format) ;
const Fmt *fmt_by_name (const char *name) ;
/* block length in frames for the format at (channels, samplerate); 1 for sample-granular, 0 = no block notion (DWVW) */
int  fmt_block (const Fmt *f, int channels, int samplerate) ;
int  fmt_rate_representable (const Fmt *f, int rate, int channels) ;
int  fmt_default_rate (const Fmt *f) ;
const char *major_name (int format) ;
const char *sub_name (int format) ;

/* ------------------------------------------------------------------ generators */

enum { G_ZERO = 0, G_POSFS, G_NEGFS, G_ALTFRAME, G_ALTITEM, G_RAMP, G_IMPULSE0, G_IMPULSE_LAST, G_POSCODE, G_NOISE1, G_NOISE2, G_NOISE3, G_NOISE4, G_NGEN } ;
extern const char *gen_names [G_NGEN] ;
/* value as a 32-bit left-justified integer for item i of n, then masked to `width` significant bits */
int32_t gen_i32 (int g, long i, long n, int width) ;
/* fill a typed buffer; for float types integer-coded encodings get v / 2^31-scaled exactly representable values
** (with_norm) and float encodings get raw float patterns. */
void gen_fill (int g, int type, void *buf, long n, int width, int is_float_enc) ;

/* typed helpers */
sf_count_t vl_read (SNDFILE *sf, int type, int frames_variant, void *buf, sf_count_t count) ;
sf_count_t vl_write (SNDFILE *sf, int type, int frames_variant, const void *buf, sf_count_t count) ;

#endif
