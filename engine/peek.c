/* peek.c - read-only view of SF_PRIVATE, compiled against the tree's own common.h and the build's config.h. */
#include "sfconfig.h"
#include <stdio.h>
#include <stdlib.h>
#include <string.h>
#include <malloc.h>
#include "sndfile.h"
#include "common.h"

#include "vlib.h"

void pk_get (SNDFILE *sf, PeekState *st, int with_blobs)
{	SF_PRIVATE *psf = (SF_PRIVATE *) sf ;
	memset (st, 0, sizeof (*st)) ;
	st->read_current = psf->read_current ; st->write_current = psf->write_current ;
	st->frames = psf->sf.frames ; st->dataoffset = psf->dataoffset ; st->datalength = psf->datalength ;
	st->dataend = psf->dataend ; st->filelength = psf->filelength ;
	st->header_indx = psf->header.indx ; st->header_len = psf->header.len ;
	st->last_op = psf->last_op ; st->have_written = psf->have_written ; st->error = psf->error ;
	st->channels = psf->sf.channels ; st->mode = psf->file.mode ;
	st->blockwidth = psf->blockwidth ; st->bytewidth = psf->bytewidth ;
	st->rchunks_used = psf->rchunks.used ; st->rchunks_count = psf->rchunks.count ;
	st->wchunks_used = psf->wchunks.used ; st->wchunks_count = psf->wchunks.count ;
	st->norm_float = psf->norm_float ; st->norm_double = psf->norm_double ;
	st->add_clipping = psf->add_clipping ; st->auto_header = psf->auto_header ;
	st->scale_int_float = psf->scale_int_float ; st->float_int_mult = psf->float_int_mult ; st->endian = psf->endian ;
	if (with_blobs)
	{	if (psf->codec_data)
			st->codec_hash = vl_hash (psf->codec_data, malloc_usable_size (psf->codec_data), VL_H0) ;
		if (psf->container_data)
			st->container_hash = vl_hash (psf->container_data, malloc_usable_size (psf->container_data), VL_H0) ;
		}
}

int pk_max_error (void) { return SFE_MAX_ERROR ; }
int pk_sf_buffer_len (void) { return SF_BUFFER_LEN ; }
