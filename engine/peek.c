/* peek.c - read-only view of SF_PRIVATE, compiled against the tree's own common.h and the build's config.h. */
#include "sfconfig.h"
#include <stdio.h>
#include <stdlib.h>
#include <string.h>
#include <malloc.h>
#include "sndfile.h"
#include "common.h"

#include "vlib.h"

void pk_get (SNDFILE *sf, PeekState *st, int with_blobs)
{	SF_PRIVATE *psf = (SF_PRIVATE *) sf ;
	memset (st, 0, sizeof (*st)) ;
	st->read_current = psf->read_current ; st->write_current = psf->write_current ;
	st->frames = psf->sf.frames ; st->dataoffset = psf->dataoffset ; st->datalength = psf->datalength ;
	st->dataend = psf->dataend ; st->filelength = psf->filelength ;
	st->header_indx = psf->header.indx ; st->header_len = psf->header.len ;
	st->last_op = psf->last_op ; st->have_written = psf->have_written ; st->error = psf->error ;
	st->channels = psf->sf.channels ; st->mode = psf->file.mode ;
	st->blockwidth = psf->blockwidth ; st->bytewidth = psf->bytewidth ;
	st->rchunks_used = psf->rchunks.used ; st->rchunks_count = psf->rchunks.count ;
	st->wchunks_used = psf->wchunks.used ; st->wchunks_count = psf->wchunks.count ;
	st->norm_float = psf->norm_float ; st->norm_double = psf->norm_double ;
	st->add_clipping = psf->add_clipping ; st->auto_header = psf->auto_header ;
	st->scale_int_float = psf->scale_int_float ; st->float_int_mult = psf->float_int_mult ; st->endian = psf->endian ;
	if (with_blobs)
	{	if (psf->codec_data)
			st->codec_hash = vl_hash (psf->codec_data, malloc_usable_size (psf->codec_data), VL_H0) ;
		if (psf->container_data)
			st->container_hash = vl_hash (psf->container_data, malloc_usable_size (psf->container_data), VL_H0) ;
		}
}

uint64_t pk_meta_hash (SNDFILE *sf)
{	SF_PRIVATE *psf = (SF_PRIVATE *) sf ; uint64_t h = VL_H0 ;
	h = vl_hash (&psf->sf, sizeof (psf->sf), h) ;
	h = vl_hash_u64 (psf->norm_float, h) ; h = vl_hash_u64 (psf->norm_double, h) ; h = vl_hash_u64 (psf->add_clipping, h) ;
	h = vl_hash_u64 (psf->auto_header, h) ; h = vl_hash_u64 (psf->scale_int_float, h) ; h = vl_hash_u64 (psf->float_int_mult, h) ;
	h = vl_hash_u64 (psf->strings.flags, h) ; h = vl_hash_u64 (psf->strings.storage_used, h) ;
	for (int k = 0 ; k < SF_MAX_STRINGS ; k++)
	{	h = vl_hash_u64 (psf->strings.data [k].type, h) ; h = vl_hash_u64 (psf->strings.data [k].flags, h) ; h = vl_hash_u64 (psf->strings.data [k].offset, h) ; }
	if (psf->strings.storage) h = vl_hash (psf->strings.storage, psf->strings.storage_used, h) ;
	if (psf->broadcast_16k) h = vl_hash (psf->broadcast_16k, sizeof (*psf->broadcast_16k), h) ;
	if (psf->cart_16k) h = vl_hash (psf->cart_16k, sizeof (*psf->cart_16k), h) ;
	if (psf->cues) h = vl_hash (psf->cues, sizeof (uint32_t) + psf->cues->cue_count * sizeof (psf->cues->cue_points [0]), h) ;
	if (psf->instrument) h = vl_hash (psf->instrument, sizeof (*psf->instrument), h) ;
	if (psf->loop_info) h = vl_hash (psf->loop_info, sizeof (*psf->loop_info), h) ;
	if (psf->channel_map) h = vl_hash (psf->channel_map, psf->sf.channels * sizeof (int), h) ;
	if (psf->peak_info) h = vl_hash (psf->peak_info->peaks, psf->sf.channels * sizeof (psf->peak_info->peaks [0]), h) ;
	h = vl_hash_u64 (psf->wchunks.used, h) ; h = vl_hash_u64 (psf->rchunks.used, h) ;
	h = vl_hash_u64 (psf->read_current, h) ; h = vl_hash_u64 (psf->write_current, h) ; h = vl_hash_u64 (psf->have_written, h) ;
	h = vl_hash_u64 (psf->dataoffset, h) ; h = vl_hash_u64 (psf->datalength, h) ;
	return h ;
}

int pk_max_error (void) { return SFE_MAX_ERROR ; }
int pk_sf_buffer_len (void) { return SF_BUFFER_LEN ; }
