#!/usr/bin/env python3
"""Maintenance helper (never run by checks): add reviewed known findings.
   kf.py add <prop> <tier> '<regex over signature>' '<what>'   - adds every signature of the last run matching the regex
   kf.py fixed <regex> <commit> - mark matching entries fixed
"""
import json, os, re, sys
V = os.path.dirname(os.path.dirname(os.path.abspath(__file__)))
P = os.path.join(V, "known_findings.json")
d = json.load(open(P)) if os.path.exists(P) else {"findings": []}
if sys.argv[1] == "add":
    prop, tier, rx, what = sys.argv[2:6]
    sigs = json.load(open(os.path.join(V, "build", "run", "%s-%s" % (prop, tier), "sigs.json")))
    have = {f["signature"] for f in d["findings"]}
    n = 0
    for s in sorted(sigs):
        if re.search(rx, s) and s not in have:
            d["findings"].append({"property": prop, "signature": s, "status": "known", "what": what,
                                  "example": sigs[s][1], "example_detail": sigs[s][2][:200]})
            n += 1
    print("added", n)
elif sys.argv[1] == "fixed":
    rx, commit = sys.argv[2:4]
    n = 0
    for f in d["findings"]:
        if re.search(rx, f["signature"]) and f["status"] == "known":
            f["status"] = "fixed"; f["commit"] = commit; n += 1
    print("marked fixed", n)
d["findings"].sort(key=lambda f: (f["property"], f["signature"]))
json.dump(d, open(P, "w"), indent=1)
