/* hostile_core.h - seeds (valid files of every format, metadata-rich files, hand-built files with every chunk
** type) and the complete mutation families derived from them; shared by C03 (h_hostile) and C16 (h_fault). */
#ifndef HOSTILE_CORE_H
#define HOSTILE_CORE_H
#include "vlib.h"
#include "rt_common.h"

typedef struct
{	char name [64] ; char fam [24] ;	/* fam: container name used in signatures */
	unsigned char *data ; sf_count_t len ; sf_count_t hdr ;	/* hdr: bytes [0, hdr) get the byte / word families */
	int raw_format, raw_ch, raw_rate ;	/* for headerless seeds: the SF_INFO the caller must supply */
	int chunk_kind ;	/* 0 none, 1 RIFF (LE32), 2 IFF (BE32), 3 CAF (BE64) */
	int wide ;			/* has 64-bit fields worth mutating */
	sf_count_t dataoff ;
} Seed ;

enum { M_IDENT = 0, M_TRUNC, M_BYTE, M_W16, M_W32, M_W64, M_CDEL, M_CDUP, M_CSWAP, M_CEND, M_CRETAG, M_CSHRINK, M_RAW, M_FILL, M_NKINDS } ;
typedef struct { int kind ; sf_count_t a, b ; uint64_t v ; int be ; const char *id ; unsigned char raw [96] ; int rawlen ; } Mut ;

#define MAXSEEDS 700
extern Seed hc_seeds [MAXSEEDS] ; extern int hc_nseeds ;
enum { HR_VIO = 0, HR_PIPE, HR_FD, HR_NROUTES } ;

/* called once per mutant: the edit, the routes it should be tried on (bit mask), whether script pairs are worth it.
** The runner materialises the bytes only for executions it actually performs. */
typedef void (*HcRun) (const Seed *s, const Mut *m, int routes_mask, int pairs) ;
const char *hc_family (const Mut *m) ;
void hc_describe (const Mut *m, char *buf, size_t n) ;
sf_count_t hc_materialise (const Seed *s, const Mut *m, unsigned char *out) ;	/* out: 2 * s->len + 4096 bytes */

void hc_build_seeds (void) ;
int  hc_is_reference (const Seed *s) ;	/* first seed of its container, or a rich / hand-built one: gets every header position */
void hc_seed_families (const Seed *s, HcRun run) ;
void hc_unconstrained (HcRun run) ;
#endif
