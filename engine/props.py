"""Per-property configuration of the checks (harness, level, rule text, bounds)."""

COMMON_ASSUME = [
    "libsndfile is built from /repo's working tree by cmake+ninja with ENABLE_EXTERNAL_LIBS=OFF, ENABLE_MPEG=OFF (FLAC/Ogg/MPEG absent, as in the pinned test build)",
    "gcc AddressSanitizer reports every out-of-bounds heap/stack/global access it instruments; UBSan is not an oracle",
    "the in-memory SF_VIRTUAL_IO device behaves like a regular file; clock pinned via --wrap=time/gettimeofday",
]

PROPS = {
    "C01": {
        "harness": "h_rt", "level": "exploration",
        "technique": "bounded exhaustive enumeration of configurations x lengths x generators on the real library (in-memory device), identity oracle",
        "level_text": "every (format, endian, channels, caller type, length, generator) inside the stated alphabets is executed on the real library under ASan and compared bit for bit; a coverage statement over that finite space, not a sample",
        "level_note": "values outside the 13 generators / 5-value small-scope alphabet, lengths outside the boundary alphabet and channel counts above 8 are not explored; FLAC/Ogg/MPEG are not in this build",
        "rule": "every catalogue (major,subtype,endian) whose encoding is lossless for caller type T x channels x T x N in the block/staging boundary alphabet x 13 generators, "
                "plus ALL sequences over {min,-1,0,1,max} with N*ch<=4 items; write once, close, re-open, read with T, memcmp. "
                "non-trivial = N>0 and generator not all-zero; every case has a distinct spec",
        "bounds": {"quick": "channels {1,2,3}; endian {file,le,be}; 11 generators (13 for float files)", "thorough": "channels {1,2,3,5,8}; all 4 endian options; 13 generators; extra lengths 2S+3, 3B+2"},
        "deadline": {"quick": 240, "thorough": 1800},
        "required_roots": ["wav/pcm_16/file", "aiff/pcm_24/file", "caf/alac_16/file", "raw/dwvw_16/file", "xi/dpcm_16/file", "au/double/file"],
        "assumptions": COMMON_ASSUME + ["lossless type table per encoding is the hand-written traits table engine/fmt.c (from the property statement), not asked of the library"],
    },
}
