"""Per-property configuration of the checks (harness, level, rule text, bounds)."""

COMMON_ASSUME = [
    "libsndfile is built from /repo's working tree by cmake+ninja with ENABLE_EXTERNAL_LIBS=OFF, ENABLE_MPEG=OFF (FLAC/Ogg/MPEG absent, as in the pinned test build)",
    "gcc AddressSanitizer reports every out-of-bounds heap/stack/global access it instruments; UBSan is not an oracle",
    "the in-memory SF_VIRTUAL_IO device behaves like a regular file; clock pinned via --wrap=time/gettimeofday",
]

PROPS = {
    "C01": {
        "harness": "h_rt", "level": "exploration",
        "technique": "bounded exhaustive enumeration of configurations x lengths x generators on the real library (in-memory device), identity oracle",
        "level_text": "every (format, endian, channels, caller type, length, generator) inside the stated alphabets is executed on the real library under ASan and compared bit for bit; a coverage statement over that finite space, not a sample",
        "level_note": "values outside the 13 generators / 5-value small-scope alphabet, lengths outside the boundary alphabet and channel counts above 8 are not explored; FLAC/Ogg/MPEG are not in this build",
        "rule": "every catalogue (major,subtype,endian) whose encoding is lossless for caller type T x channels x T x N in the block/staging boundary alphabet x 13 generators, "
                "plus ALL sequences over {min,-1,0,1,max} with N*ch<=4 items; write once, close, re-open, read with T, memcmp. "
                "non-trivial = N>0 and generator not all-zero; every case has a distinct spec",
        "bounds": {"quick": "channels {1,2,3}; endian {file,le,be}; 11 generators (13 for float files)", "thorough": "channels {1,2,3,5,8}; all 4 endian options; 13 generators; extra lengths 2S+3, 3B+2"},
        "deadline": {"quick": 240, "thorough": 1800},
        "required_roots": ["wav/pcm_16/file", "aiff/pcm_24/file", "caf/alac_16/file", "raw/dwvw_16/file", "xi/dpcm_16/file", "au/double/file"],
        "assumptions": COMMON_ASSUME + ["lossless type table per encoding is the hand-written traits table engine/fmt.c (from the property statement), not asked of the library"],
    },
    "C04": {
        "harness": "h_rt", "level": "exploration",
        "technique": "bounded exhaustive enumeration of (format, channels, N, sample rate, open-time frames, write split) on the real library; oracle from the container traits table",
        "level_text": "every configuration in the stated alphabets is written, closed, re-opened and read to EOF with all four types on the real library under ASan; frame-count bound N<=F<N+B, rate representability and format identity come from the hand-written traits table, not from the library",
        "level_note": "sample rates are a 38-value boundary alphabet, lengths the block/staging boundary alphabet, channels {1,2,5}; block length B per encoding is taken from the format specifications (engine/fmt.c)",
        "rule": "catalogue format x ch{1,2,5} x N in boundary alphabet x 3 write splits (type rotating) ; x 38 boundary sample rates for N in {0,3} ; x open-time SF_INFO.frames in {777,-5,2^40} (bytes must equal the frames=0 run). non-trivial = every case (each writes, closes, re-opens and reads to EOF)",
        "bounds": {"quick": "endian {file,le,be}, 5-channel only for endian=file", "thorough": "all endian options, extra lengths"},
        "deadline": {"quick": 240, "thorough": 1800},
        "required_roots": ["wav/pcm_16/file", "aiff/ima_adpcm/file", "voc/ulaw/file", "svx/pcm_16/file", "sds/pcm_16/file"],
        "assumptions": COMMON_ASSUME + ["block length, pad rule and sample-rate representability per container are the independent traits table engine/fmt.c"],
    },
    "C07": {
        "harness": "h_rt", "level": "exploration", "variants": ["asan", "fast"],
        "technique": "deviation-bounded exhaustive enumeration of write partitions (split points, item/frame variant, header update, perturbed heap/stack) on the real library; byte-identity oracle against the single-call execution",
        "level_text": "every partition with at most 2 (thorough: 3) extra split points from the block/staging boundary set, every single frames-variant / update-header deviation and two perturbed re-runs are executed on the real library and the complete file bytes compared with the single-call file; run on an ASan and on an uninstrumented build (where stale heap/stack content is visible)",
        "level_note": "clock pinned (PEAK timestamps comparable); 3 generators; channels {1,2}; split points outside the boundary set and more than 3 splits are not explored",
        "rule": "catalogue format x ch{1,2} x caller type x generator x partition: default = one sf_write_T call; deviations = split points from {1,2,3,B-1,B,B+1,2B-1,2B,2B+1,S-1,S,S+1,N-1}, sf_writef_T for a segment, SFC_UPDATE_HEADER_NOW after a segment, re-run with perturbed heap and stack. non-trivial = every case (all write N>B frames)",
        "bounds": {"quick": "<=2 split points; endian {file,be}; generators 2,3 only for short/float", "thorough": "<=3 split points, combined deviations, endian {file,le,be}, all generators x types"},
        "deadline": {"quick": 280, "thorough": 2400},
        "required_roots": ["wav/ima_adpcm/file", "wav/ms_adpcm/file", "caf/alac_16/file", "raw/gsm610/file", "au/g721_32/file", "xi/dpcm_16/file"],
        "assumptions": COMMON_ASSUME,
    },
    "C10": {
        "harness": "h_rt", "level": "exploration",
        "technique": "complete enumeration of the finite (major x subtype x endian x channels x samplerate) grid and of all enumeration-command indices on the real library",
        "level_text": "the property's finite domain is enumerated completely (plus unknown/zero major and subtype words and stray bits); each point runs sf_format_check, a real write-open, four typed writes, close and re-open on the real library",
        "level_note": "SD2 goes through sf_open on a private temp dir (resource fork), everything else through the in-memory device; the 512 MB allocator cap turns absurd allocation requests into NULL",
        "rule": "all (major in list + unknown + zero) x (subtype in list + unknown + zero) x endian{FILE,LITTLE,BIG,CPU} x channels{0,1,2,3,8,9,256,257,1024,1025} x samplerate{-1,0,1,8000,44100,2^31-1}; all indices -1..count of the SIMPLE/MAJOR/SUBTYPE lists. non-trivial = every grid point (each does check + real open)",
        "bounds": {"quick": "complete grid", "thorough": "complete grid"},
        "deadline": {"quick": 280, "thorough": 1200},
        "required_roots": ["wav", "aiff", "sd2", "xi", "mpc2k"],
        "assumptions": COMMON_ASSUME,
    },
    "C02": {
        "harness": "h_conv", "level": "exploration", "variants": ["fast", "fast-sse2"],
        "technique": "exhaustive enumeration of finite code spaces / boundary lattices through every conversion routine of the real library, compared with a reference written from the docs",
        "level_text": "all 2^8 / 2^16 stored codes, all 2^16 short inputs, the 327680-point 24/32-bit lattices and a ~95000-point float lattice (all finite top-half float patterns, k/2^(w-1), (k+-1/2)/(2^(w-1)-1), +-1, +-(1-ulp)) go through each (encoding, byte order, caller type, norm/clip/scale setting) kernel of the real library in two build variants (lrint and SSE2); every produced value is compared with engine/ref_conv.c",
        "level_note": "float->int results outside the integer range with clipping off are not compared (unspecified); with clipping on the in-range result must lie between the values for scale 2^(w-1)-1 and 2^(w-1) (docs do not fix the constant) and saturate beyond; SFC_SET_SCALE_FLOAT_INT_READ only sign/monotonicity/full-scale/short-int agreement; float->G.711 only on the 16384 inputs s=4k",
        "rule": "RAW container: encoding {s8,u8,16,24,32,float,double,ulaw,alaw} x byte order {le,be} x caller type x {norm} x {clip} x {scale switches} x read/write, one case per kernel+setting processing the complete value set; plus every other container offering the encoding with a 2900-value subset written as short and float and read through 4 types. non-trivial = every case; values compared are counted separately",
        "bounds": {"quick": "24-bit: 2^16 high x 5 low bytes", "thorough": "24-bit: all 2^24 codes"},
        "extra_counters": ["values_compared"],
        "deadline": {"quick": 280, "thorough": 1800},
        "required_roots": ["pcm_16", "pcm_24", "float", "double", "ulaw", "cross"],
        "assumptions": COMMON_ASSUME[:1] + ["reference conversions engine/ref_conv.c and engine/ref_g711.c written from docs/api.md, docs/command.md and ITU-T G.711", "variants: -O2 (psf_lrint = lrint) and -O2 -DUSE_SSE2 -msse2 (psf_lrint = cvtsd2si)"],
    },
}
