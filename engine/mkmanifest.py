#!/usr/bin/env python3
"""Regenerate the checks / not_applicable sections of MANIFEST.json from engine/props.py."""
import json, os, sys
V = os.path.dirname(os.path.dirname(os.path.abspath(__file__)))
sys.path.insert(0, os.path.join(V, "engine"))
from props import PROPS
m = json.load(open(os.path.join(V, "MANIFEST.json")))
allp = [json.loads(l)["id"] for l in open(os.path.join(V, "properties.jsonl"))]
checks = []
for pid in allp:
    if pid not in PROPS:
        continue
    c = PROPS[pid]
    checks.append({
        "property_id": pid,
        "quick_cmd": "./check %s --tier quick" % pid,
        "thorough_cmd": "./check %s --tier thorough" % pid,
        "evidence_file": "evidence/%s.json" % pid,
        "replay_cmd_template": "./check replay {path}",
        "engine": "vlib/" + c["harness"],
        "level_claimed": {"category": c["level"], "text": c["level_text"], "design_ref": c.get("design_ref", "DESIGN.md section 6 / " + pid)},
        "level_note": c["level_note"],
        "technique": c["technique"],
    })
m["checks"] = checks
m["not_applicable"] = [{"property_id": p, "reason": "check not built yet in this round (planned, see DESIGN.md section 6); not claimed until it runs to completion on the unchanged tree"} for p in allp if p not in PROPS]
m["engines"][0]["serves_properties"] = [c["property_id"] for c in checks]
json.dump(m, open(os.path.join(V, "MANIFEST.json"), "w"), indent=1)
print("checks:", len(checks), "not_applicable:", len(m["not_applicable"]))
