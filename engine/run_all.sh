#!/bin/sh
# usage: run_all.sh <quick|thorough> [Cxx ...]   -- run the registered checks one after another, one summary line each
T="$1"; shift
L="${*:-C01 C02 C04 C05 C06 C07 C08 C09 C10 C11 C12 C13 C14 C15 C17 C18 C19 C20 C16 C03}"
for c in $L; do
  s=$(date +%s); /verif/check "$c" --tier "$T" > /verif/build/run/all-$T-$c.log 2>&1; rc=$?
  echo "$c exit=$rc $(( $(date +%s) - s ))s :: $(grep -c '^VIOLATION' /verif/build/run/all-$T-$c.log) violations :: $(tail -1 /verif/build/run/all-$T-$c.log | cut -c1-260)"
done
