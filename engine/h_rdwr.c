/* h_rdwr.c - C08: SFM_RDWR keeps independent, correct read and write positions.
** Explicit-state breadth-first search over operation histories on the real library, every
** transition compared with the reference model below (ref_rdwr).
*/
#include "vlib.h"
#include "rt_common.h"
#include "ref.h"
#include <unistd.h>

const char *harness_name = "h_rdwr" ;

#define CAP 9			/* frame cap: operations that would exceed it are disabled */

/* ------------------------------------------------------------------ reference model */

typedef struct
{	int frames, rpos, wpos ;
	int code [CAP + 8] ;	/* 0 = never written in this model run (pre-populated content has codes too), -1 = gap (content unspecified) */
} Model ;

enum { OP_W, OP_R, OP_S, OP_T, OP_U, OP_C, OP_WRAW, OP_RRAW } ;
typedef struct { int kind, k, whence, which, off ; char name [24] ; } Op ;	/* which: 0 plain, SFM_READ, SFM_WRITE */

static Op ops [64] ; static int nops ;

static void build_ops (int with_truncate)
{	static const int wh [3] = { SEEK_SET, SEEK_CUR, SEEK_END }, which [3] = { 0, SFM_READ, SFM_WRITE }, offs [4] = { -2, 0, 1, 3 } ;
	static const char *whn [3] = { "SET", "CUR", "END" }, *whichn [3] = { "", "|R", "|W" } ;
	nops = 0 ;
	for (int k = 1 ; k <= 3 ; k += 2) { ops [nops] = (Op) { OP_W, k, 0, 0, 0, "" } ; snprintf (ops [nops].name, 24, "W%d", k) ; nops ++ ; }
	for (int k = 1 ; k <= 4 ; k += 3) { ops [nops] = (Op) { OP_R, k, 0, 0, 0, "" } ; snprintf (ops [nops].name, 24, "R%d", k) ; nops ++ ; }
	for (int w = 0 ; w < 3 ; w++) for (int m = 0 ; m < 3 ; m++) for (int o = 0 ; o < 4 ; o++)
	{	ops [nops] = (Op) { OP_S, 0, wh [w], which [m], offs [o], "" } ; snprintf (ops [nops].name, 24, "S%s%s%+d", whn [w], whichn [m], offs [o]) ; nops ++ ; }
	if (with_truncate)
		for (int t = 0 ; t < 3 ; t++) { ops [nops] = (Op) { OP_T, t, 0, 0, 0, "" } ; snprintf (ops [nops].name, 24, "T%s", t == 0 ? "0" : t == 1 ? "2" : "F-1") ; nops ++ ; }
	ops [nops] = (Op) { OP_WRAW, 1, 0, 0, 0, "Wr1" } ; nops ++ ;
	ops [nops] = (Op) { OP_WRAW, 3, 0, 0, 0, "Wr3" } ; nops ++ ;
	ops [nops] = (Op) { OP_RRAW, 1, 0, 0, 0, "Rr1" } ; nops ++ ;
	ops [nops] = (Op) { OP_RRAW, 4, 0, 0, 0, "Rr4" } ; nops ++ ;
	ops [nops] = (Op) { OP_U, 0, 0, 0, 0, "U" } ; nops ++ ;
	ops [nops] = (Op) { OP_C, 0, 0, 0, 0, "C" } ; nops ++ ;
}

/* is the op enabled in this model state (frame cap) */
static int model_enabled (const Model *m, const Op *o)
{	if (o->kind == OP_W || o->kind == OP_WRAW) return m->wpos + o->k <= CAP ;
	if (o->kind == OP_S)
	{	int base = o->whence == SEEK_SET ? 0 : o->whence == SEEK_END ? m->frames : (o->which == SFM_READ ? m->rpos : m->wpos) ;
		return base + o->off <= CAP ;
		}
	if (o->kind == OP_T)
	{	int n = o->k == 0 ? 0 : o->k == 1 ? 2 : m->frames - 1 ;
		return n >= 0 && n <= m->frames ;
		}
	return 1 ;
}

/* new code for a frame being written: identifies position and generation */
static int next_code (int pos, int old) { return 1 + 2 * pos + ((old > 0 && ((old - 1) & 1) == 0) ? 1 : 0) ; }

/* apply op to the model; returns the expected return value (frames for R/W, position or -1 for S, 0 for T) */
static long model_apply (Model *m, const Op *o, int *wcodes)
{	switch (o->kind)
	{	case OP_W : case OP_WRAW :
			for (int i = m->frames ; i < m->wpos ; i++) m->code [i] = -1 ;		/* gap */
			for (int i = 0 ; i < o->k ; i++)
			{	int pos = m->wpos + i, old = pos < m->frames ? m->code [pos] : 0 ;
				wcodes [i] = m->code [pos] = next_code (pos, old) ;
				}
			m->wpos += o->k ; if (m->wpos > m->frames) m->frames = m->wpos ;
			return o->k ;
		case OP_R : case OP_RRAW :
			{	int n = m->frames - m->rpos ; if (n < 0) n = 0 ; if (n > o->k) n = o->k ;
				m->rpos += n ; return n ;
				}
		case OP_S :
			{	int base = o->whence == SEEK_SET ? 0 : o->whence == SEEK_END ? m->frames : (o->which == SFM_READ ? m->rpos : m->wpos) ;
				int target = base + o->off ;
				if (target < 0) return -1 ;
				if (o->which == 0) { m->rpos = m->wpos = target ; }
				else if (o->which == SFM_READ) m->rpos = target ;
				else m->wpos = target ;
				return target ;
				}
		case OP_T :
			{	int n = o->k == 0 ? 0 : o->k == 1 ? 2 : m->frames - 1 ;
				m->frames = n ; m->rpos = m->wpos = n ;
				return 0 ;
				}
		case OP_C : m->rpos = 0 ; m->wpos = m->frames ; return 0 ;
		default : return 0 ;
		}
}

/* ------------------------------------------------------------------ roots and values */

typedef struct { const Fmt *f ; int ch, type, route, prepop, sub ; } Root ;	/* route 0 virtual, 1 descriptor ; type T_SHORT / T_FLOAT */
static Root R ;
static MemDev dev ; static int fd = -1 ;

static double code_value (int code, int c)
{	int sub = R.sub, k = code + (c ? 40 : 0) ;		/* second channel carries a different code */
	if (code <= 0) return 0 ;
	if (sub == SF_FORMAT_ULAW) return ref_ulaw_decode ((unsigned) (0xFE - k)) ;
	if (sub == SF_FORMAT_ALAW) return ref_alaw_decode ((unsigned) (k + 1)) ;
	if (R.type == T_SHORT || R.type == T_INT) return (double) (k << 8) ;	/* int: this value in the upper half */
	return (double) k ;
}

static void fill_frames (void *buf, const int *codes, int nframes)
{	for (int i = 0 ; i < nframes ; i++)
		for (int c = 0 ; c < R.ch ; c++)
			if (R.type == T_SHORT) ((short *) buf) [i * R.ch + c] = (short) code_value (codes [i], c) ;
			else if (R.type == T_INT) ((int *) buf) [i * R.ch + c] = (int) ((uint32_t) (int) code_value (codes [i], c) << 16) ;
			else if (R.type == T_DOUBLE) ((double *) buf) [i * R.ch + c] = code_value (codes [i], c) ;
			else ((float *) buf) [i * R.ch + c] = (float) code_value (codes [i], c) ;
}

static SNDFILE *open_handle (int mode, SF_INFO *info)
{	SNDFILE *sf ;
	if (R.route == 0)
	{	md_rewind (&dev) ;
		sf = md_open (&dev, mode, info) ;
		}
	else
	{	sio_real_lseek (fd, 0, SEEK_SET) ;
		INLIB (sf = sf_open_fd (fd, mode, info, SF_FALSE)) ;
		}
	if (sf && R.type == T_FLOAT) INLIB (sf_command (sf, SFC_SET_NORM_FLOAT, NULL, SF_FALSE)) ;
	if (sf && R.type == T_DOUBLE) INLIB (sf_command (sf, SFC_SET_NORM_DOUBLE, NULL, SF_FALSE)) ;
	return sf ;
}

static uint64_t device_hash (void)
{	if (R.route == 0) return vl_hash_u64 (dev.pos, md_hash (&dev)) ;
	{	static unsigned char buf [65536] ; long n, cur = sio_real_lseek (fd, 0, SEEK_CUR) ; uint64_t h = VL_H0 ;
		sio_real_lseek (fd, 0, SEEK_SET) ;
		while ((n = sio_real_read (fd, buf, sizeof (buf))) > 0) h = vl_hash (buf, n, h) ;
		sio_real_lseek (fd, cur, SEEK_SET) ;
		return vl_hash_u64 (cur, h) ;
		}
}

/* file-format bytes of frames carrying the given codes: produced by a scratch RAW handle of the same encoding and byte order */
static MemDev scratch ; static int scratch_init ;
static int raw_image (SNDFILE *like, const int *codes, int nframes, unsigned char *out, int *blockwidth)
{	PeekState pk ; SF_INFO info ; SNDFILE *sf ; char buf [(CAP + 8) * 2 * 8] ;
	pk_get (like, &pk, 0) ; *blockwidth = pk.blockwidth ;
	if (! scratch_init) { md_init (&scratch) ; scratch_init = 1 ; }
	md_reset (&scratch) ; memset (&info, 0, sizeof (info)) ;
	info.format = SF_FORMAT_RAW | R.sub | (pk.endian == SF_ENDIAN_BIG ? SF_ENDIAN_BIG : SF_ENDIAN_LITTLE) ; info.channels = R.ch ; info.samplerate = 8000 ;
	sf = md_open (&scratch, SFM_WRITE, &info) ;
	if (! sf) return 0 ;
	if (R.type == T_FLOAT) INLIB (sf_command (sf, SFC_SET_NORM_FLOAT, NULL, SF_FALSE)) ;
	if (R.type == T_DOUBLE) INLIB (sf_command (sf, SFC_SET_NORM_DOUBLE, NULL, SF_FALSE)) ;
	fill_frames (buf, codes, nframes) ; vl_write (sf, R.type, 1, buf, nframes) ; INLIB (sf_close (sf)) ;
	if (scratch.len != (sf_count_t) nframes * pk.blockwidth) return 0 ;
	memcpy (out, scratch.data, scratch.len) ;
	return 1 ;
}

static const char *rsig (void) { return rt_sig ("%s|%s", rt_fam (R.f), rt_chclass (R.ch)) ; }

/* close-and-verify: a fresh read-only open must see exactly the model's frames and content */
static void verify_closed (const Model *m, const char *when)
{	SF_INFO ri ; SNDFILE *sf ; rt_info_read (&ri, R.f, R.ch, 8000) ;
	sf = open_handle (SFM_READ, &ri) ;
	if (! sf) { vl_violation (rt_sig ("%s|reopen-failed", rsig ()), "%s: read-only open failed: %s", when, sf_strerror (NULL)) ; return ; }
	if (ri.frames != m->frames)
		vl_violation (rt_sig ("%s|closed-frames", rsig ()), "%s: fresh open reports %lld frames, model %d", when, (long long) ri.frames, m->frames) ;
	else
	{	char buf [(CAP + 8) * 2 * 8], exp [(CAP + 8) * 2 * 8] ; sf_count_t r = vl_read (sf, R.type, 1, buf, m->frames) ;
		if (r != m->frames) vl_violation (rt_sig ("%s|closed-readable", rsig ()), "%s: read %lld of %d frames", when, (long long) r, m->frames) ;
		else
		{	fill_frames (exp, m->code, m->frames) ;
			for (int i = 0 ; i < m->frames ; i++)
				if (m->code [i] >= 0 && memcmp (buf + i * R.ch * type_size [R.type], exp + i * R.ch * type_size [R.type], R.ch * type_size [R.type]) != 0)
				{	vl_violation (rt_sig ("%s|closed-content", rsig ()), "%s: frame %d of the closed file is %s, model expects %s (code %d)", when, i,
						rt_fmt_item (buf, R.type, i * R.ch, 0), rt_fmt_item (exp, R.type, i * R.ch, 1), m->code [i]) ;
					break ;
					}
			}
		}
	INLIB (sf_close (sf)) ;
}

/* run a history; *key receives the canonical state key (0 if the run ended in a violation) */
static void run_history (const int *h, int depth, uint64_t *key, int verify_leaf)
{	Model m ; SF_INFO info ; SNDFILE *sf ; int dead = 0, v0 = vl_case_violations () ;
	memset (&m, 0, sizeof (m)) ;
	if (R.route == 0) md_reset (&dev) ;
	else { if (fd >= 0) sio_real_close (fd) ; fd = sio_memfd ("c08") ; }
	rt_info (&info, R.f, R.ch, 8000) ;
	if (R.prepop)
	{	/* pre-populate through a plain write-mode handle */
		int codes [5] ; char buf [5 * 2 * 8] ; SNDFILE *w = open_handle (SFM_WRITE, &info) ;
		if (! w) { *key = 0 ; return ; }
		for (int i = 0 ; i < 5 ; i++) codes [i] = m.code [i] = next_code (i, 0) ;
		fill_frames (buf, codes, 5) ; vl_write (w, R.type, 1, buf, 5) ;
		if (R.prepop == 2) INLIB (sf_set_string (w, SF_STR_COMMENT, "a comment that lies behind the audio")) ;	/* a LIST chunk behind the data: appended audio grows over it, close writes it again */
		INLIB (sf_close (w)) ;
		m.frames = 5 ; m.rpos = 0 ; m.wpos = 5 ;
		rt_info (&info, R.f, R.ch, 8000) ;
		}
	sf = open_handle (SFM_RDWR, &info) ;
	if (! sf) { vl_note ("RDWR open refused: %s", sf_strerror (NULL)) ; *key = 0 ; return ; }
	for (int i = 0 ; i < depth && ! dead ; i++)
	{	const Op *o = &ops [h [i]] ; int wcodes [4] ; long expect, got = -99 ; Model before = m ;
		if (! model_enabled (&m, o)) { dead = 2 ; break ; }
		expect = model_apply (&m, o, wcodes) ;
		vl_count_transitions (1) ;
		switch (o->kind)
		{	case OP_W :
				{	char buf [4 * 2 * 8] ; fill_frames (buf, wcodes, o->k) ; got = vl_write (sf, R.type, 1, buf, o->k) ; }
				break ;
			case OP_R :
				{	char buf [4 * 2 * 8], exp [4 * 2 * 8] ; got = vl_read (sf, R.type, 1, buf, o->k) ;
					if (got == expect && got > 0)
					{	fill_frames (exp, before.code + before.rpos, (int) got) ;
						for (int j = 0 ; j < got ; j++)
							if (before.code [before.rpos + j] >= 0 && memcmp (buf + j * R.ch * type_size [R.type], exp + j * R.ch * type_size [R.type], R.ch * type_size [R.type]) != 0)
							{	vl_violation (rt_sig ("%s|read-data", rsig ()), "op %d (%s): frame %d read as %s, model has %s (code %d)", i, o->name, before.rpos + j,
									rt_fmt_item (buf, R.type, j * R.ch, 0), rt_fmt_item (exp, R.type, j * R.ch, 1), before.code [before.rpos + j]) ;
								dead = 1 ; break ;
								}
						}
					}
				break ;
			case OP_WRAW :
				{	unsigned char img [4 * 2 * 8] ; int bw ; sf_count_t r ;
					if (! raw_image (sf, wcodes, o->k, img, &bw)) { vl_violation (rt_sig ("%s|raw-image", rsig ()), "engine: could not build the raw image") ; dead = 1 ; break ; }
					INLIB (r = sf_write_raw (sf, img, (sf_count_t) o->k * bw)) ; got = r >= 0 && r % bw == 0 ? r / bw : -7 ;
					}
				break ;
			case OP_RRAW :
				{	unsigned char buf [4 * 2 * 8], exp [4 * 2 * 8] ; int bw ; sf_count_t r ; int codes [4] ; PeekState pk ;
					pk_get (sf, &pk, 0) ; bw = pk.blockwidth ;
					INLIB (r = sf_read_raw (sf, buf, (sf_count_t) o->k * bw)) ; got = r >= 0 && r % bw == 0 ? r / bw : -7 ;
					if (got == expect && got > 0)
					{	for (int j = 0 ; j < got ; j++) codes [j] = before.code [before.rpos + j] > 0 ? before.code [before.rpos + j] : 0 ;
						if (raw_image (sf, codes, (int) got, exp, &bw))
							for (int j = 0 ; j < got ; j++)
								if (before.code [before.rpos + j] > 0 && memcmp (buf + j * bw, exp + j * bw, bw) != 0)
								{	vl_violation (rt_sig ("%s|raw-read-data", rsig ()), "op %d (%s): raw bytes of frame %d differ from the encoding of code %d", i, o->name, before.rpos + j, before.code [before.rpos + j]) ;
									dead = 1 ; break ;
									}
						}
					}
				break ;
			case OP_S : { sf_count_t r ; INLIB (r = sf_seek (sf, o->off, o->whence | o->which)) ; got = r ; } break ;
			case OP_T :
				{	sf_count_t n = o->k == 0 ? 0 : o->k == 1 ? 2 : before.frames - 1 ; int r ; INLIB (r = sf_command (sf, SFC_FILE_TRUNCATE, &n, sizeof (n))) ; got = r ; }
				break ;
			case OP_U : INLIB (sf_command (sf, SFC_UPDATE_HEADER_NOW, NULL, 0)) ; got = expect ; break ;
			case OP_C :
				{	int rc ; INLIB (rc = sf_close (sf)) ; sf = NULL ;
					if (rc != 0) vl_violation (rt_sig ("%s|close-nonzero", rsig ()), "sf_close returned %d", rc) ;
					verify_closed (&m, "after close/re-open op") ;
					rt_info (&info, R.f, R.ch, 8000) ;
					sf = open_handle (SFM_RDWR, &info) ;
					if (! sf) { vl_violation (rt_sig ("%s|rdwr-reopen-failed", rsig ()), "%s", sf_strerror (NULL)) ; dead = 1 ; }
					got = expect ;
					}
				break ;
			}
		vl_note ("%s -> %ld (model %ld) [model frames=%d r=%d w=%d]", o->name, got, expect, m.frames, m.rpos, m.wpos) ;
		if (dead) break ;
		if (got != expect)
		{	vl_violation (rt_sig ("%s|%s-return", rsig (), o->kind == OP_W ? "write" : o->kind == OP_R ? "read" : o->kind == OP_S ? "seek" : o->kind == OP_WRAW ? "rawwrite" : o->kind == OP_RRAW ? "rawread" : "truncate"),
				"op %d (%s) returned %ld, model %ld (model before: frames=%d r=%d w=%d)", i, o->name, got, expect, before.frames, before.rpos, before.wpos) ;
			dead = 1 ; break ;
			}
		/* both cursors and the frame count after every operation */
		{	sf_count_t rp, wp ; SF_INFO cur ; memset (&cur, 0, sizeof (cur)) ;
			INLIB (rp = sf_seek (sf, 0, SEEK_CUR | SFM_READ)) ; INLIB (wp = sf_seek (sf, 0, SEEK_CUR | SFM_WRITE)) ;
			INLIB (sf_command (sf, SFC_GET_CURRENT_SF_INFO, &cur, sizeof (cur))) ;
			if (rp != m.rpos || wp != m.wpos)
			{	vl_violation (rt_sig ("%s|cursors-after-%s", rsig (), o->kind == OP_W ? "write" : o->kind == OP_R ? "read" : o->kind == OP_S ? "seek" : o->kind == OP_T ? "truncate" : o->kind == OP_U ? "update" : "reopen"),
					"after op %d (%s): read cursor %lld (model %d), write cursor %lld (model %d)", i, o->name, (long long) rp, m.rpos, (long long) wp, m.wpos) ;
				dead = 1 ; break ;
				}
			if (cur.frames != m.frames)
			{	vl_violation (rt_sig ("%s|frames-after-%s", rsig (), o->kind == OP_W ? "write" : o->kind == OP_T ? "truncate" : "other"), "after op %d (%s): frame count %lld, model %d", i, o->name, (long long) cur.frames, m.frames) ;
				dead = 1 ; break ;
				}
			}
		}
	*key = 0 ;
	if (sf)
	{	if (! dead)
		{	PeekState pk ; pk_get (sf, &pk, 0) ;
			*key = vl_hash (&m, sizeof (m), vl_hash_u64 (pk.read_current, vl_hash_u64 (pk.write_current, vl_hash_u64 (pk.last_op, vl_hash_u64 (pk.have_written,
					vl_hash_u64 (pk.dataend, vl_hash_u64 (pk.datalength, vl_hash_u64 (pk.frames, device_hash ())))))))) | 1 ;
			}
		{	int rc ; INLIB (rc = sf_close (sf)) ;
			if (rc != 0 && ! dead) vl_violation (rt_sig ("%s|close-nonzero", rsig ()), "sf_close returned %d", rc) ;
			}
		if (! dead && verify_leaf) verify_closed (&m, "at leaf") ;
		}
	if (dead == 2) *key = 0 ;
	if (vl_case_violations () != v0) *key = 0 ;
}

static const char *hist_string (const int *h, int depth)
{	static char s [200] ; s [0] = 0 ;
	for (int i = 0 ; i < depth ; i++) { if (i) strcat (s, ".") ; strcat (s, ops [h [i]].name) ; }
	return s ;
}

#define MAXF 60000
static int (*frontier) [6], (*nextf) [6] ; static uint64_t *seen ; static long nseen ;

static int seen_add (uint64_t k)
{	/* open addressing set */
	static const long cap = 1 << 21 ; long i = (long) ((k * 0x9E3779B97F4A7C15ULL) >> 43) ;
	for ( ; ; i = (i + 1) & (cap - 1))
	{	if (seen [i] == k) return 0 ;
		if (seen [i] == 0) { seen [i] = k ; nseen ++ ; return 1 ; }
		}
}

static void explore (int maxdepth)
{	long nf = 1, nn, histories = 0 ;
	if (! frontier) { frontier = malloc (sizeof (int [6]) * MAXF) ; nextf = malloc (sizeof (int [6]) * MAXF) ; seen = calloc (1 << 21, 8) ; }
	memset (seen, 0, (size_t) 8 << 21) ; nseen = 0 ;
	memset (frontier [0], 0, sizeof (int [6])) ;
	for (int depth = 1 ; depth <= maxdepth ; depth++)
	{	nn = 0 ;
		for (long fi = 0 ; fi < nf ; fi++)
			for (int o = 0 ; o < nops ; o++)
			{	int h [6] ; uint64_t key ;
				memcpy (h, frontier [fi], sizeof (h)) ; h [depth - 1] = o ;
				vl_subcase ("C08 H fmt=%s ch=%d type=%s route=%s prepop=%d hist=%s", R.f->name, R.ch, type_names [R.type], R.route ? "fd" : "vio", R.prepop, hist_string (h, depth)) ;
				run_history (h, depth, &key, 1) ;
				histories ++ ;
				if (key == 0 || depth == maxdepth) continue ;
				if (! seen_add (key)) continue ;
				if (nn < MAXF) memcpy (nextf [nn++], h, sizeof (h)) ;
				else vl_not_exhaustive ("C08 frontier cap reached") ;
				}
		{ int (*t) [6] = frontier ; frontier = nextf ; nextf = t ; } nf = nn ;
		vl_count_states (nn) ;
		if (vl_deadline_passed ()) { vl_not_exhaustive ("C08 deadline inside a root") ; break ; }
		}
	vl_count_extra (0, histories) ;
}

void harness_run (void)
{	const char *rp = vl_opts.replay ;
	fmt_build () ; md_init (&dev) ;
	for (int fi = 0 ; fi < fmt_count ; fi++)
	{	const Fmt *f = &fmt_list [fi] ; int sub = f->format & SF_FORMAT_SUBMASK, major = f->format & SF_FORMAT_TYPEMASK ;
		if (f->needs_path || ! f->gran || (f->format & SF_FORMAT_ENDMASK) != SF_ENDIAN_FILE) continue ;
		if (sub == SF_FORMAT_DPCM_8 || sub == SF_FORMAT_DPCM_16) continue ;
		int core = (major == SF_FORMAT_WAV || major == SF_FORMAT_AIFF || major == SF_FORMAT_AU || major == SF_FORMAT_RAW) &&
					(sub == SF_FORMAT_PCM_16 || sub == SF_FORMAT_PCM_24 || sub == SF_FORMAT_FLOAT || sub == SF_FORMAT_ULAW) ;
		for (int ch = 1 ; ch <= 2 ; ch++)
			for (int type = 0 ; type < T_NTYPES ; type++)
				for (int route = 0 ; route < 2 ; route++)
					for (int prepop = 0 ; prepop < 3 ; prepop++)
					{	int maxdepth ;
						if (prepop == 2 && ! (core && major == SF_FORMAT_WAV)) continue ;	/* the container that takes SFM_RDWR with a chunk behind the data */
						if (! rt_accepts (f, ch, 8000)) continue ;
						if ((type == T_INT || type == T_DOUBLE) && ! (core && major == SF_FORMAT_WAV && sub == SF_FORMAT_PCM_16 && prepop < 2)) continue ;	/* each of the eight typed entries has its own bookkeeping: the int and double ones on one container */
						if (! core && (ch != 1 || type != T_SHORT || route != (fi & 1))) continue ;	/* non-core formats: one variant, route alternating */
						if (type == T_FLOAT && (sub == SF_FORMAT_PCM_U8)) continue ;
						R = (Root) { f, ch, type, route, prepop, sub } ;
						build_ops (route == 1) ;
						if (rp && strncmp (rp, "C08 H ", 6) == 0)
						{	char pre [200] ; snprintf (pre, sizeof (pre), "C08 H fmt=%s ch=%d type=%s route=%s prepop=%d hist=", f->name, ch, type_names [type], route ? "fd" : "vio", prepop) ;
							if (strncmp (rp, pre, strlen (pre)) != 0) continue ;
							{	int h [6], depth = 0 ; char tmp [200], *tok ; snprintf (tmp, sizeof (tmp), "%s", rp + strlen (pre)) ;
								for (tok = strtok (tmp, ".") ; tok && depth < 6 ; tok = strtok (NULL, "."))
								{	int found = -1 ; for (int o = 0 ; o < nops ; o++) if (! strcmp (ops [o].name, tok)) found = o ;
									if (found < 0) { printf ("REPLAY: unknown op %s\n", tok) ; return ; }
									h [depth++] = found ;
									}
								if (vl_case ("%s", rp)) { uint64_t key ; run_history (h, depth, &key, 1) ; vl_end (1, key) ; }
								}
							return ;
							}
						if (vl_case ("C08 root fmt=%s ch=%d type=%s route=%s prepop=%d", f->name, ch, type_names [type], route ? "fd" : "vio", prepop))
						{	SF_INFO info ; SNDFILE *sf ;
							/* does the format open in RDWR on an empty device at all? */
							if (route == 0) md_reset (&dev) ; else { if (fd >= 0) sio_real_close (fd) ; fd = sio_memfd ("c08") ; }
							rt_info (&info, f, ch, 8000) ; sf = open_handle (SFM_RDWR, &info) ;
							if (! sf) { vl_note ("RDWR not available: %s", sf_strerror (NULL)) ; vl_end (0, 0) ; continue ; }
							INLIB (sf_close (sf)) ;
							vl_root_count (f->name) ;
							maxdepth = vl_opts.thorough ? (core ? 5 : 4) : (core ? 4 : 3) ;
							explore (maxdepth) ;
							vl_end (1, nseen) ;
							}
						}
		}
}
