#!/usr/bin/env python3
"""Maintenance: print the measured-cost table of DESIGN.md section 11 from the logs of engine/run_all.sh."""
import os, re, sys
V = os.path.dirname(os.path.dirname(os.path.abspath(__file__)))
sys.path.insert(0, os.path.join(V, "engine"))
import props
rx = re.compile(r"(C\d\d) (quick|thorough): (\d+) cases \((\d+) non-trivial, (\d+) distinct outcomes\), (\d+) roots, states=(\d+) transitions=(\d+), (exhaustive within bounds|NOT exhaustive \([^)]*\)), known findings seen=(\d+), new violations=(\d+), ([\d.]+)s")
def last(tier, c):
    p = os.path.join(V, "build", "run", "all-%s-%s.log" % (tier, c))
    if not os.path.exists(p): return None
    for l in reversed(open(p).read().splitlines()):
        m = rx.search(l)
        if m: return m
    return None
def fmt(m):
    if not m: return "-", "-", "-"
    n = int(m.group(3)); st, tr = int(m.group(7)), int(m.group(8))
    what = "%s cases" % f"{n:,}"
    if st or tr: what += ", %s states / %s transitions" % (f"{st:,}", f"{tr:,}")
    ex = "yes" if m.group(9).startswith("exhaustive") else "no: " + m.group(9)[16:-1]
    return what, "%.0f s" % float(m.group(12)), ex
print("| id  | harness | evidence level | quick: explored | quick wall | thorough: explored | thorough wall | thorough complete |")
print("|-----|---------|----------------|-----------------|-----------:|--------------------|--------------:|-------------------|")
for c in sorted(props.PROPS):
    q, t = last("quick", c), last("thorough", c)
    qw, qt, _ = fmt(q); tw, tt, tex = fmt(t)
    print("| %s | `%s` | %s | %s | %s | %s | %s | %s |" % (c, props.PROPS[c]["harness"], props.PROPS[c]["level"], qw, qt, tw, tt, tex))
