/* ref_conv.c - reference sample conversions written from docs/api.md (Note 1/2), docs/command.md and the
** property statement; deliberately boring.  Stored integer samples are handled as a signed value v of
** width w bits (8, 16, 24, 32); unsigned 8-bit files store v + 128.
*/
#include "ref.h"

/* ---------- reading integer files ---------- */

short ref_int_to_short (int w, int32_t v)
{	/* keep the most significant bits */
	if (w >= 16) return (short) (v >> (w - 16)) ;
	return (short) ((uint32_t) v << (16 - w)) ;
}

int ref_int_to_int (int w, int32_t v)
{	return (int) ((uint32_t) v << (32 - w)) ;
}

float ref_int_to_float (int w, int32_t v, int norm)
{	if (! norm) return (float) v ;
	return (float) ((double) v / (double) ((int64_t) 1 << (w - 1))) ;
}

double ref_int_to_double (int w, int32_t v, int norm)
{	if (! norm) return (double) v ;
	return (double) v / (double) ((int64_t) 1 << (w - 1)) ;
}

/* ---------- writing integer files ---------- */

int32_t ref_short_to_int (int w, short s)
{	/* keep the most significant bits: widening zero-pads, narrowing truncates */
	if (w >= 16) return (int32_t) ((uint32_t) (int32_t) s << (w - 16)) ;
	return (int32_t) s >> (16 - w) ;
}

int32_t ref_int_to_stored (int w, int i)
{	return i >> (32 - w) ;
}

static int64_t imax (int w) { return ((int64_t) 1 << (w - 1)) - 1 ; }
static int64_t imin (int w) { return - ((int64_t) 1 << (w - 1)) ; }

/* float -> w-bit integer, normalisation on, clipping off: nearest integer to x * (2^(w-1) - 1), product and
** rounding in the caller's type.  *in_range = 0 when the result does not fit (unspecified without clipping). */
int64_t ref_float_to_int (int w, float x, int norm, int *in_range)
{	float k = norm ? (float) imax (w) : 1.0f, y = x * k ; int64_t r ;
	if (! (y >= -9.3e18f && y <= 9.3e18f)) { *in_range = 0 ; return 0 ; }
	r = llrintf (y) ;
	*in_range = (r >= imin (w) && r <= imax (w)) ;
	return r ;
}

int64_t ref_double_to_int (int w, double x, int norm, int *in_range)
{	double k = norm ? (double) imax (w) : 1.0, y = x * k ; int64_t r ;
	if (! (y >= -9.3e18 && y <= 9.3e18)) { *in_range = 0 ; return 0 ; }
	r = llrint (y) ;
	*in_range = (r >= imin (w) && r <= imax (w)) ;
	return r ;
}

/* clipping on: the result must saturate; in range the scale constant is not pinned down by the docs
** (2^(w-1) - 1 by Note 1, 2^(w-1) in the code), so the reference yields an interval [lo, hi]. */
void ref_float_to_int_clip (int w, float x, int norm, int64_t *lo, int64_t *hi)
{	float ka = norm ? (float) imax (w) : 1.0f, kb = norm ? (float) ((int64_t) 1 << (w - 1)) : 1.0f ;
	double ya = (double) (x * ka), yb = (double) (x * kb) ; int64_t a, b ;
	a = ya >= (double) imax (w) ? imax (w) : ya <= (double) imin (w) ? imin (w) : llrint (ya) ;
	b = yb >= (double) imax (w) ? imax (w) : yb <= (double) imin (w) ? imin (w) : llrint (yb) ;
	*lo = a < b ? a : b ; *hi = a < b ? b : a ;
}

void ref_double_to_int_clip (int w, double x, int norm, int64_t *lo, int64_t *hi)
{	double ka = norm ? (double) imax (w) : 1.0, kb = norm ? (double) ((int64_t) 1 << (w - 1)) : 1.0 ;
	double ya = x * ka, yb = x * kb ; int64_t a, b ;
	a = ya >= (double) imax (w) ? imax (w) : ya <= (double) imin (w) ? imin (w) : llrint (ya) ;
	b = yb >= (double) imax (w) ? imax (w) : yb <= (double) imin (w) ? imin (w) : llrint (yb) ;
	*lo = a < b ? a : b ; *hi = a < b ? b : a ;
}
