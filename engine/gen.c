/* gen.c - the finite family of deterministic sample generators (pure functions of the item index). */
#include "vlib.h"

const char *gen_names [G_NGEN] = { "zero", "posfs", "negfs", "altframe", "altitem", "ramp", "impulse0", "impulselast", "poscode", "noise1", "noise2", "noise3", "noise4" } ;

static uint32_t mix (uint64_t x)
{	x += 0x9E3779B97F4A7C15ULL ;
	x = (x ^ (x >> 30)) * 0xBF58476D1CE4E5B9ULL ;
	x = (x ^ (x >> 27)) * 0x94D049BB133111EBULL ;
	return (uint32_t) ((x ^ (x >> 31)) >> 16) ;
}

int32_t gen_i32 (int g, long i, long n, int width)
{	uint32_t v = 0, mask ;
	switch (g)
	{	case G_ZERO : v = 0 ; break ;
		case G_POSFS : v = 0x7FFFFFFF ; break ;
		case G_NEGFS : v = 0x80000000u ; break ;
		case G_ALTFRAME : v = ((i / 2) & 1) ? 0x80000000u : 0x7FFFFFFF ; break ;
		case G_ALTITEM : v = (i & 1) ? 0x80000000u : 0x7FFFFFFF ; break ;
		case G_RAMP : v = (uint32_t) (i * 0x01234567u + 0x00010001u) ; break ;
		case G_IMPULSE0 : v = (i == 0) ? 0x7FFFFFFF : 0 ; break ;
		case G_IMPULSE_LAST : v = (i == n - 1) ? 0x80000000u : 0 ; break ;
		case G_POSCODE : /* value encodes its own index in the top bits, slowly varying so that lossy-free codecs are happy too */
			v = (uint32_t) ((i + 1) * 0x00410000u) ^ (uint32_t) ((i + 1) << 8) ; break ;
		case G_NOISE1 : case G_NOISE2 : case G_NOISE3 : case G_NOISE4 :
			v = mix ((uint64_t) i * 4 + (g - G_NOISE1)) ; break ;
		}
	if (width <= 0 || width >= 32) return (int32_t) v ;
	mask = ~((1u << (32 - width)) - 1) ;
	return (int32_t) (v & mask) ;
}

void gen_fill (int g, int type, void *buf, long n, int width, int is_float_enc)
{	for (long i = 0 ; i < n ; i++)
	{	int32_t v = gen_i32 (g, i, n, is_float_enc ? 32 : width) ;
		switch (type)
		{	case T_SHORT :
				{	int w = (width > 0 && width < 16) ? width : 16 ;
					int32_t m = gen_i32 (g, i, n, is_float_enc ? 16 : w) ;
					((short *) buf) [i] = (short) (m >> 16) ;
					}
				break ;
			case T_INT : ((int *) buf) [i] = v ; break ;
			case T_FLOAT :
				if (is_float_enc && g >= G_NOISE3)
				{	/* raw finite bit patterns: every exponent except inf/nan */
					union { uint32_t u ; float f ; } c ; c.u = (uint32_t) v ;
					if ((c.u & 0x7F800000u) == 0x7F800000u) c.u &= 0xBFFFFFFFu ;
					((float *) buf) [i] = c.f ;
					}
				else
					((float *) buf) [i] = (float) ((double) (v >> 8) / 8388608.0) ;	/* exact: 24 significant bits */
				break ;
			case T_DOUBLE :
				if (is_float_enc && g >= G_NOISE3)
				{	union { uint64_t u ; double d ; } c ;
					c.u = ((uint64_t) (uint32_t) v << 32) | mix ((uint64_t) i * 977 + 13) | ((uint64_t) mix (i + 77) << 16) ;
					if ((c.u & 0x7FF0000000000000ULL) == 0x7FF0000000000000ULL) c.u &= 0xBFFFFFFFFFFFFFFFULL ;
					((double *) buf) [i] = c.d ;
					}
				else
					((double *) buf) [i] = (double) v / 2147483648.0 + (is_float_enc == 64 ? (double) (mix (i) & 0xFFFFF) * 0x1p-52 : 0.0) ;
				break ;
			}
		}
}
