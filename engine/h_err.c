/* h_err.c - C09: invalid calls fail cleanly; valid calls leave no error.
** Exhaustive exploration of valid / invalid call histories to a depth bound on the real library.
*/
#include "vlib.h"
#include "rt_common.h"

const char *harness_name = "h_err" ;

static MemDev dev ;
static unsigned char *seed_bytes ; static sf_count_t seed_len ; static long seed_frames ;

typedef struct { const char *fmt ; int ch ; } RootFmt ;
static const RootFmt root_fmts [] = { { "wav/pcm_16/file", 2 }, { "aiff/float/file", 2 }, { "raw/ulaw/file", 1 }, { "wav/ima_adpcm/file", 2 }, { "caf/alac_16/file", 2 }, { "sds/pcm_16/file", 1 },
	{ "au/pcm_24/file", 2 }, { "w64/ms_adpcm/file", 1 }, { "paf/pcm_24/file", 2 }, { "aiff/dwvw_16/file", 1 }, { NULL, 0 } } ;

static const Fmt *F ; static int CH, MODE ;

enum { V_VALID, V_INVALID, V_NA } ;
enum { RK_COUNT, RK_SEEK, RK_CODE, RK_CMD } ;	/* how a failure is reported: 0 items, -1, non-zero code, command-specific */

typedef struct { const char *name ; int (*klass) (void) ; long (*run) (SNDFILE *) ; int retkind ; } Op ;

static int readable (void) { return MODE != SFM_WRITE ; }
static int writable (void) { return MODE != SFM_READ ; }

/* ---- operations ---- */
static short sbuf [64] ;
static long op_read1 (SNDFILE *sf) { return vl_read (sf, T_SHORT, 1, sbuf, 1) ; }
static int  k_read1 (void) { return readable () ? V_VALID : V_INVALID ; }
static long op_write1 (SNDFILE *sf) { memset (sbuf, 0, sizeof (sbuf)) ; sbuf [0] = 256 ; return vl_write (sf, T_SHORT, 1, sbuf, 1) ; }
static int  k_write1 (void) { return writable () ? V_VALID : V_INVALID ; }
static double dbuf8 [16] ;
#define ODD(t, T) static long op_read_odd_##t (SNDFILE *sf) { return vl_read (sf, T, 0, dbuf8, 3) ; } \
	static long op_write_odd_##t (SNDFILE *sf) { memset (dbuf8, 0, sizeof (dbuf8)) ; return vl_write (sf, T, 0, dbuf8, 3) ; } \
	static long op_read_neg_##t (SNDFILE *sf) { return vl_read (sf, T, (T & 1), dbuf8, -2) ; } \
	static long op_write_neg_##t (SNDFILE *sf) { return vl_write (sf, T, ! (T & 1), dbuf8, -1) ; }
ODD (s, T_SHORT) ODD (i, T_INT) ODD (f, T_FLOAT) ODD (d, T_DOUBLE)
static int  k_read_odd (void) { return CH == 2 && readable () ? V_INVALID : V_NA ; }
static int  k_write_odd (void) { return CH == 2 && writable () ? V_INVALID : V_NA ; }
static int  k_read_neg (void) { return readable () ? V_INVALID : V_NA ; }
static int  k_write_neg (void) { return writable () ? V_INVALID : V_NA ; }
#define SEEKOP(nm, off, wh) static long nm (SNDFILE *sf) { sf_count_t r ; INLIB (r = sf_seek (sf, off, wh)) ; return r ; }
SEEKOP (op_seek_set1, 1, SEEK_SET)
static int k_seek_set1 (void) { return V_VALID ; }
SEEKOP (op_seek_w3, 0, 3)
SEEKOP (op_seek_w77, 0, 77)
SEEKOP (op_seek_w80, 0, SEEK_SET | 0x80)
static int k_inv (void) { return V_INVALID ; }
SEEKOP (op_seek_neg, -1, SEEK_SET)
static long op_seek_past (SNDFILE *sf) { sf_count_t r ; INLIB (r = sf_seek (sf, seed_frames + 1, SEEK_SET)) ; return r ; }
static int  k_seek_past (void) { return MODE == SFM_READ ? V_INVALID : V_VALID ; }	/* write modes: past the end is a legal target (a gap) that a codec may still refuse */
SEEKOP (op_seek_wmode, 0, SEEK_SET | SFM_WRITE)
static int k_seek_wmode (void) { return MODE == SFM_READ ? V_INVALID : V_NA ; }
SEEKOP (op_seek_rmode, 0, SEEK_SET | SFM_READ)
static int k_seek_rmode (void) { return MODE == SFM_WRITE ? V_INVALID : V_NA ; }
/* the wrong-mode bit with the other whence values, including the zero-offset "tell" idiom */
SEEKOP (op_seek_wmode_cur0, 0, SEEK_CUR | SFM_WRITE)
SEEKOP (op_seek_wmode_cur1, 1, SEEK_CUR | SFM_WRITE)
SEEKOP (op_seek_wmode_end, 0, SEEK_END | SFM_WRITE)
SEEKOP (op_seek_rmode_cur0, 0, SEEK_CUR | SFM_READ)
SEEKOP (op_seek_rmode_cur1, 1, SEEK_CUR | SFM_READ)
SEEKOP (op_seek_rmode_end, 0, SEEK_END | SFM_READ)
static long op_cmd_getclip (SNDFILE *sf) { int r ; INLIB (r = sf_command (sf, SFC_GET_CLIPPING, NULL, 0)) ; return r ; }
static int  k_valid (void) { return V_VALID ; }
static long op_cmd_unknown (SNDFILE *sf) { int r ; INLIB (r = sf_command (sf, 0x4321, NULL, 0)) ; return r ; }
static long op_cmd_null (SNDFILE *sf) { int r ; INLIB (r = sf_command (sf, SFC_GET_FORMAT_INFO, NULL, sizeof (SF_FORMAT_INFO))) ; return r ; }
static long op_setstr (SNDFILE *sf) { int r ; INLIB (r = sf_set_string (sf, SF_STR_TITLE, "T")) ; return r ; }
static int  k_setstr (void) { return writable () ? V_VALID : V_INVALID ; }
static long op_setstr_null (SNDFILE *sf) { int r ; INLIB (r = sf_set_string (sf, SF_STR_TITLE, NULL)) ; return r ; }
/* raw transfers of 3 bytes on a 2-channel handle: never a whole number of frames, whatever the encoding (block codecs have no frame width: the channel count is the unit) */
static long op_rawread3 (SNDFILE *sf) { sf_count_t r ; static unsigned char rb [16] ; INLIB (r = sf_read_raw (sf, rb, 3)) ; return r ; }
static long op_rawwrite3 (SNDFILE *sf) { sf_count_t r ; static const unsigned char wb [16] = { 1, 2, 3 } ; INLIB (r = sf_write_raw (sf, wb, 3)) ; return r ; }
static int  k_rawread3 (void) { return CH == 2 && readable () ? V_INVALID : V_NA ; }
static int  k_rawwrite3 (void) { return CH == 2 && writable () ? V_INVALID : V_NA ; }
static long op_setstr_empty (SNDFILE *sf) { int r ; INLIB (r = sf_set_string (sf, SF_STR_TITLE, "")) ; return r ; }	/* only the software string may be empty */
static int  k_setstr_empty (void) { return writable () ? V_INVALID : V_NA ; }
static long op_setstr_type (SNDFILE *sf) { int r ; INLIB (r = sf_set_string (sf, 0x777, "x")) ; return r ; }
static long op_setchunk_null (SNDFILE *sf) { int r ; INLIB (r = sf_set_chunk (sf, NULL)) ; return r ; }
static long op_chunksize_null (SNDFILE *sf) { int r ; SF_CHUNK_INFO ci ; (void) sf ; memset (&ci, 0, sizeof (ci)) ; INLIB (r = sf_get_chunk_size (NULL, &ci)) ; return r ; }

static const Op ops [] =
{	{ "read1", k_read1, op_read1, RK_COUNT }, { "write1", k_write1, op_write1, RK_COUNT }, { "seekset1", k_seek_set1, op_seek_set1, RK_SEEK },
	{ "getclip", k_valid, op_cmd_getclip, RK_CMD }, { "setstr", k_setstr, op_setstr, RK_CODE },
	{ "read-odd-short", k_read_odd, op_read_odd_s, RK_COUNT }, { "write-odd-short", k_write_odd, op_write_odd_s, RK_COUNT },
	{ "read-neg-short", k_read_neg, op_read_neg_s, RK_COUNT }, { "write-neg-short", k_write_neg, op_write_neg_s, RK_COUNT },
	{ "read-odd-int", k_read_odd, op_read_odd_i, RK_COUNT }, { "write-odd-int", k_write_odd, op_write_odd_i, RK_COUNT },
	{ "read-neg-int", k_read_neg, op_read_neg_i, RK_COUNT }, { "write-neg-int", k_write_neg, op_write_neg_i, RK_COUNT },
	{ "read-odd-float", k_read_odd, op_read_odd_f, RK_COUNT }, { "write-odd-float", k_write_odd, op_write_odd_f, RK_COUNT },
	{ "read-neg-float", k_read_neg, op_read_neg_f, RK_COUNT }, { "write-neg-float", k_write_neg, op_write_neg_f, RK_COUNT },
	{ "read-odd-double", k_read_odd, op_read_odd_d, RK_COUNT }, { "write-odd-double", k_write_odd, op_write_odd_d, RK_COUNT },
	{ "read-neg-double", k_read_neg, op_read_neg_d, RK_COUNT }, { "write-neg-double", k_write_neg, op_write_neg_d, RK_COUNT },
	{ "seek-whence3", k_inv, op_seek_w3, RK_SEEK }, { "seek-whence77", k_inv, op_seek_w77, RK_SEEK }, { "seek-whence0x80", k_inv, op_seek_w80, RK_SEEK },
	{ "seek-neg", k_inv, op_seek_neg, RK_SEEK }, { "seek-past", k_seek_past, op_seek_past, RK_SEEK },
	{ "seek-wmode", k_seek_wmode, op_seek_wmode, RK_SEEK }, { "seek-rmode", k_seek_rmode, op_seek_rmode, RK_SEEK },
	{ "seek-wmode-cur0", k_seek_wmode, op_seek_wmode_cur0, RK_SEEK }, { "seek-wmode-cur1", k_seek_wmode, op_seek_wmode_cur1, RK_SEEK }, { "seek-wmode-end", k_seek_wmode, op_seek_wmode_end, RK_SEEK },
	{ "seek-rmode-cur0", k_seek_rmode, op_seek_rmode_cur0, RK_SEEK }, { "seek-rmode-cur1", k_seek_rmode, op_seek_rmode_cur1, RK_SEEK }, { "seek-rmode-end", k_seek_rmode, op_seek_rmode_end, RK_SEEK },
	{ "cmd-unknown", k_inv, op_cmd_unknown, RK_CODE }, { "cmd-null", k_inv, op_cmd_null, RK_CODE },
	{ "setstr-null", k_inv, op_setstr_null, RK_CODE }, { "setstr-empty", k_setstr_empty, op_setstr_empty, RK_CODE }, { "setstr-type", k_inv, op_setstr_type, RK_CODE },
	{ "raw-read-3", k_rawread3, op_rawread3, RK_COUNT }, { "raw-write-3", k_rawwrite3, op_rawwrite3, RK_COUNT },
	{ "setchunk-null", k_inv, op_setchunk_null, RK_CODE }, { "chunksize-null", k_inv, op_chunksize_null, RK_CODE },
} ;
#define NOPS ((int) (sizeof (ops) / sizeof (ops [0])))

static const char *mode_name (int m) { return m == SFM_READ ? "read" : m == SFM_WRITE ? "write" : "rdwr" ; }
static const char *bad_text = "No error defined for this error number. This is a bug in libsndfile." ;

static void build_seed (void)
{	SF_INFO info ; SNDFILE *sf ; int B = fmt_block (F, CH, 8000) ; long N = B > 1 ? 2 * B + 3 : 11 ; short *buf = calloc (N * CH, 2) ;
	for (long i = 0 ; i < N * CH ; i++) buf [i] = (short) (i * 37) ;
	md_reset (&dev) ; rt_info (&info, F, CH, fmt_default_rate (F)) ;
	sf = md_open (&dev, SFM_WRITE, &info) ;
	free (seed_bytes) ; seed_bytes = NULL ; seed_len = 0 ; seed_frames = 0 ;
	if (! sf) { free (buf) ; return ; }
	vl_write (sf, T_SHORT, 1, buf, N) ; INLIB (sf_close (sf)) ; free (buf) ;
	seed_len = dev.len ; seed_bytes = malloc (dev.len + 1) ; memcpy (seed_bytes, dev.data, dev.len) ;
	md_rewind (&dev) ; rt_info_read (&info, F, CH, fmt_default_rate (F)) ;
	sf = md_open (&dev, SFM_READ, &info) ; if (sf) { seed_frames = info.frames ; INLIB (sf_close (sf)) ; }
}

static SNDFILE *open_root (void)
{	SF_INFO info ;
	if (MODE == SFM_WRITE) { md_reset (&dev) ; rt_info (&info, F, CH, fmt_default_rate (F)) ; }
	else { md_set (&dev, seed_bytes, seed_len) ; rt_info_read (&info, F, CH, fmt_default_rate (F)) ; }
	return md_open (&dev, MODE, &info) ;
}

/* check == 0: silent run that only computes the transcript of the valid operations (used as the reference with the invalid calls removed) */
static uint64_t run_history (const int *h, int depth, int check)
{	SNDFILE *sf = open_root () ; char rs [96] ; uint64_t oh = VL_H0, tr = VL_H0 ;
	snprintf (rs, sizeof (rs), "%s", major_name (F->format)) ;
	if (! sf) { if (check) vl_note ("open refused: %s", sf_strerror (NULL)) ; return 0 ; }
	for (int i = 0 ; i < depth ; i++)
	{	const Op *o = &ops [h [i]] ; int kl = o->klass (), e ; uint64_t before_meta = pk_meta_hash (sf), before_dev = md_hash (&dev) ; long r ; const char *txt ;
		r = o->run (sf) ;
		INLIB (e = sf_error (sf)) ; INLIB (txt = sf_strerror (sf)) ;
		if (o->run == op_chunksize_null) { INLIB (e = sf_error (NULL)) ; INLIB (txt = sf_strerror (NULL)) ; }	/* no handle involved: the error is global */
		if (kl == V_VALID) { tr = vl_hash_u64 (r, vl_hash_u64 (e, tr)) ; if (o->run == op_read1 && r == 1) tr = vl_hash (sbuf, CH * 2, tr) ; }
		if (! check) continue ;
		vl_note ("%s (%s) -> %ld, sf_error=%d", o->name, kl == V_VALID ? "valid" : "invalid", r, e) ;
		vl_count_transitions (1) ;
		oh = vl_hash_u64 (r, vl_hash_u64 (e, oh)) ;
		if (kl == V_VALID)
		{	/* a well-formed call may still be refused (e.g. seeking a block codec in write mode): then it must have failed properly */
			int refused = o->retkind == RK_COUNT ? r == 0 : o->retkind == RK_SEEK ? r == -1 : o->retkind == RK_CODE ? r != 0 : 0 ;
			if (refused && o->run == op_read1)
			{	PeekState pk ; pk_get (sf, &pk, 0) ; if (pk.read_current >= pk.frames) refused = 0 ; }	/* a read at or behind the end of the data delivers 0 frames: that is the end, not a refusal */
			if (! refused)
			{	if (e != 0) vl_violation (rt_sig ("%s|%s|success-leaves-error", rs, o->name), "%s succeeded (returned %ld) but sf_error is %d (%s)", o->name, r, e, txt) ;
				}
			else if (e == 0 && ! (o->retkind == RK_CODE && r != 0))
				vl_violation (rt_sig ("%s|%s|refused-without-error", rs, o->name), "%s was refused (returned %ld) but sf_error is 0", o->name, r) ;
			/* a seek that the codec refuses (a target it cannot reach) is an out-of-range seek for this handle: nothing may have moved or been written */
			if (refused && o->retkind == RK_SEEK)
			{	if (pk_meta_hash (sf) != before_meta)
					vl_violation (rt_sig ("%s|%s|refused-seek-changed-state", rs, o->name), "%s was refused (returned %ld) but positions, frame count, settings or metadata changed", o->name, r) ;
				if (md_hash (&dev) != before_dev)
					vl_violation (rt_sig ("%s|%s|refused-seek-changed-file", rs, o->name), "%s was refused (returned %ld) but the file contents changed", o->name, r) ;
				}
			continue ;
			}
		/* invalid call */
		{	int failed_value = o->retkind == RK_COUNT ? r == 0 : o->retkind == RK_SEEK ? r == -1 : r != 0 ;
			int recorded = e != 0 || (o->retkind == RK_CODE && r != 0) ;
			const char *t2 = e != 0 ? txt : (o->retkind == RK_CODE && r > 0 && r <= pk_max_error ()) ? sf_error_number ((int) r) : "" ;
			if (! failed_value)
				vl_violation (rt_sig ("%s|%s|failure-value", o->run == op_chunksize_null ? "any" : rs, o->name), "invalid %s returned %ld (documented failure value: %s)", o->name, r, o->retkind == RK_COUNT ? "0" : o->retkind == RK_SEEK ? "-1" : "non-zero") ;
			if (! recorded)
				vl_violation (rt_sig ("%s|%s|no-error-recorded", rs, o->name), "invalid %s returned %ld and left sf_error at 0", o->name, r) ;
			else if (t2 [0] == 0 || strcmp (t2, bad_text) == 0)
				vl_violation (rt_sig ("%s|%s|error-text", rs, o->name), "invalid %s: error %d has no proper message ('%s')", o->name, e, t2) ;
			if (pk_meta_hash (sf) != before_meta)
				vl_violation (rt_sig ("%s|%s|state-changed", rs, o->name), "invalid %s changed positions, frame count, settings or metadata", o->name) ;
			if (md_hash (&dev) != before_dev)
				vl_violation (rt_sig ("%s|%s|file-changed", rs, o->name), "invalid %s changed the file contents", o->name) ;
			}
		}
	{	int rc ; INLIB (rc = sf_close (sf)) ; tr = vl_hash_u64 (rc, tr) ; }
	tr = vl_hash_u64 (md_hash (&dev), tr) ;
	(void) oh ;
	if (check)
	{	/* the invalid calls must be invisible to the valid ones: same results, same final file as the history without them */
		int filtered [8], nf = 0, ninv = 0 ;
		for (int i = 0 ; i < depth ; i++) if (ops [h [i]].klass () == V_VALID) filtered [nf++] = h [i] ; else ninv ++ ;
		if (ninv > 0 && nf > 0)
		{	uint64_t ref = run_history (filtered, nf, 0) ;
			if (ref != tr)
			{	int last = -1 ; for (int i = 0 ; i < depth ; i++) if (ops [h [i]].klass () != V_VALID) last = i ;
				vl_violation (rt_sig ("%s|%s|invalid-call-not-invisible", rs, ops [h [last]].name), "results of the valid calls or the final file differ from the same history without its invalid calls") ;
				}
			}
		}
	return tr ;
}

static void error_table (void)
{	if (! vl_case ("C09 error-table")) return ;
	int maxe = pk_max_error () ; uint64_t oh = VL_H0 ;
	for (int e = 0 ; e < maxe ; e++)
	{	const char *t = sf_error_number (e) ;
		if (t == NULL || t [0] == 0 || strcmp (t, bad_text) == 0)
			vl_violation (rt_sig ("error-table|missing-text"), "sf_error_number (%d) = '%s'", e, t ? t : "(null)") ;
		if (t) oh = vl_hash (t, strlen (t), oh) ;
		}
	vl_count_extra (0, maxe) ;
	vl_root_count ("error-table") ;
	vl_end (1, oh) ;
}

/* failed opens: NULL, global error set, nothing left allocated, descriptor untouched */
static void failed_opens (void)
{	static const char *junk [] = { "", "RIFF", "RIFFxxxxWAVEfmt ", "FORM\0\0\0\4AIFF", "caff\0\1\0\0desc", ".snd\0\0\0\30", "Creative Voice File\x1a", NULL } ;
	for (int k = 0 ; junk [k] ; k++)
		for (int cut = 0 ; cut < 2 ; cut++)
		{	if (! vl_case ("C09 failed-open junk=%d cut=%d", k, cut)) continue ;
			SF_INFO info ; SNDFILE *sf ; size_t n = k == 0 ? 0 : k == 3 ? 12 : k == 4 ? 12 : k == 5 ? 8 : strlen (junk [k]) ; int e ; long live0 ;
			if (cut && n > 2) n -= 2 ;
			md_set (&dev, junk [k], n) ; memset (&info, 0, sizeof (info)) ;
			sio_reset_alloc () ; live0 = sio_live_blocks () ;
			sf = md_open (&dev, SFM_READ, &info) ;
			INLIB (e = sf_error (NULL)) ;
			if (sf != NULL) { vl_note ("opened (?)") ; INLIB (sf_close (sf)) ; }
			else
			{	const char *t ; INLIB (t = sf_strerror (NULL)) ;
				if (e == 0) vl_violation (rt_sig ("failed-open|no-global-error"), "sf_open returned NULL but sf_error (NULL) == 0") ;
				if (t == NULL || t [0] == 0 || strcmp (t, bad_text) == 0) vl_violation (rt_sig ("failed-open|error-text"), "no message for error %d", e) ;
				if (sio_live_blocks () != live0) vl_violation (rt_sig ("failed-open|leak"), "%ld blocks still allocated after the failed open (first: %s)", sio_live_blocks () - live0, sio_first_live ()) ;
				}
			vl_root_count ("failed-open") ;
			vl_end (1, e) ;
			}
	/* bad arguments */
	for (int k = 0 ; k < 5 ; k++)
	{	if (! vl_case ("C09 failed-open badarg=%d", k)) continue ;
		SF_INFO info ; SNDFILE *sf = NULL ; int e ; memset (&info, 0, sizeof (info)) ;
		md_reset (&dev) ;
		switch (k)
		{	case 0 : INLIB (sf = sf_open_virtual (&md_vio, 99, &info, &dev)) ; break ;			/* bad mode */
			case 1 : INLIB (sf = sf_open_virtual (&md_vio, SFM_READ, NULL, &dev)) ; break ;		/* NULL SF_INFO */
			case 2 : INLIB (sf = sf_open_virtual (NULL, SFM_READ, &info, &dev)) ; break ;		/* NULL vio */
			case 3 : info.format = SF_FORMAT_WAV | SF_FORMAT_PCM_16 ; info.channels = 0 ; info.samplerate = 8000 ; sf = md_open (&dev, SFM_WRITE, &info) ; break ;
			case 4 : INLIB (sf = sf_open ("/nonexistent-dir/x.wav", SFM_READ, &info)) ; break ;
			}
		INLIB (e = sf_error (NULL)) ;
		if (sf != NULL) { vl_violation (rt_sig ("failed-open|badarg-accepted"), "bad-argument open %d returned a handle", k) ; INLIB (sf_close (sf)) ; }
		else if (e == 0) vl_violation (rt_sig ("failed-open|no-global-error"), "bad-argument open %d: sf_error (NULL) == 0", k) ;
		vl_root_count ("failed-open") ;
		vl_end (1, e) ;
		}
}

static int parse_hist (const char *s, int *h)
{	int depth = 0 ; char tmp [256], *tok ; snprintf (tmp, sizeof (tmp), "%s", s) ;
	for (tok = strtok (tmp, ",") ; tok && depth < 6 ; tok = strtok (NULL, ","))
	{	int found = -1 ; for (int o = 0 ; o < NOPS ; o++) if (! strcmp (ops [o].name, tok)) found = o ;
		if (found < 0) return -1 ;
		h [depth++] = found ;
		}
	return depth ;
}

void harness_run (void)
{	static const int modes [3] = { SFM_READ, SFM_WRITE, SFM_RDWR } ; const char *rp = vl_opts.replay ;
	int maxdepth = vl_opts.thorough ? 4 : 3 ;
	fmt_build () ; md_init (&dev) ;
	error_table () ;
	failed_opens () ;
	for (int ri = 0 ; root_fmts [ri].fmt ; ri++)
	{
		F = fmt_by_name (root_fmts [ri].fmt) ; CH = root_fmts [ri].ch ;
		if (! F) continue ;
		build_seed () ;
		if (! seed_bytes) continue ;
		for (int mi = 0 ; mi < 3 ; mi++)
		{	SNDFILE *sf ; int usable [NOPS], nu = 0 ;
			MODE = modes [mi] ;
			sf = open_root () ; if (! sf) continue ; INLIB (sf_close (sf)) ;
			for (int o = 0 ; o < NOPS ; o++) if (ops [o].klass () != V_NA) usable [nu++] = o ;
			if (rp && strncmp (rp, "C09 H ", 6) == 0)
			{	char pre [200] ; int h [6], depth ; snprintf (pre, sizeof (pre), "C09 H fmt=%s mode=%s hist=", F->name, mode_name (MODE)) ;
				if (strncmp (rp, pre, strlen (pre)) != 0) continue ;
				depth = parse_hist (rp + strlen (pre), h) ;
				if (depth > 0 && vl_case ("%s", rp)) { run_history (h, depth, 1) ; vl_end (1, 0) ; }
				return ;
				}
			/* one case per first operation; the case explores every continuation to the depth bound */
			for (int a = 0 ; a < nu ; a++)
			{	if (! vl_case ("C09 root fmt=%s mode=%s first=%s depth=%d", F->name, mode_name (MODE), ops [usable [a]].name, maxdepth)) continue ;
				long hist = 0 ; int idx [6] = { 0 } ;
				vl_root_count (rt_sig ("%s/%s", F->name, mode_name (MODE))) ;
				for (int depth = 1 ; depth <= maxdepth ; depth++)
				{	long total = 1 ; for (int d = 1 ; d < depth ; d++) total *= nu ;
					for (long code = 0 ; code < total ; code++)
					{	int h [6] ; long c = code ; char hs [200] = "" ;
						h [0] = usable [a] ;
						for (int d = 1 ; d < depth ; d++) { h [d] = usable [c % nu] ; c /= nu ; }
						for (int d = 0 ; d < depth ; d++) { if (d) strcat (hs, ",") ; strcat (hs, ops [h [d]].name) ; }
						vl_subcase ("C09 H fmt=%s mode=%s hist=%s", F->name, mode_name (MODE), hs) ;
						run_history (h, depth, 1) ; hist ++ ;
						}
					}
				(void) idx ;
				vl_count_extra (0, hist) ; vl_count_states (hist) ;
				vl_end (1, hist) ;
				}
			}
		}
}
