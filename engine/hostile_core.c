/* hostile_core.c - see hostile_core.h */
#define _GNU_SOURCE
#include "hostile_core.h"
#include <unistd.h>

static MemDev dev ; static int dev_ready ;
Seed hc_seeds [MAXSEEDS] ; int hc_nseeds ;
#define seeds hc_seeds
#define nseeds hc_nseeds

/* ---------------------------------------------------------------- seeds */



static const char *major_of (const Fmt *f)
{	static char b [24] ; const char *s = f->name ; int k = 0 ;
	while (s [k] && s [k] != '/' && k < 23) { b [k] = s [k] ; k ++ ; }
	b [k] = 0 ; return b ;
}

static int chunk_kind_of (int format)
{	switch (format & SF_FORMAT_TYPEMASK)
	{	case SF_FORMAT_WAV : case SF_FORMAT_WAVEX : case SF_FORMAT_RF64 : return 1 ;
		case SF_FORMAT_AIFF : case SF_FORMAT_SVX : return 2 ;
		case SF_FORMAT_CAF : return 3 ;
		default : return 0 ;
		}
}

static Seed *add_seed (const char *name, const char *fam, const unsigned char *p, sf_count_t n, sf_count_t hdr)
{	Seed *s ;
	if (nseeds >= MAXSEEDS || n <= 0) return NULL ;
	s = &seeds [nseeds ++] ; memset (s, 0, sizeof (*s)) ;
	snprintf (s->name, sizeof (s->name), "%s", name) ; snprintf (s->fam, sizeof (s->fam), "%s", fam) ;
	s->data = malloc (n + 16) ; memcpy (s->data, p, n) ; memset (s->data + n, 0, 16) ; s->len = n ;
	if (hdr > n) hdr = n ; if (hdr > 1200) hdr = 1200 ; s->hdr = hdr ;
	return s ;
}

static void rich_metadata (SNDFILE *sf, const Fmt *f)
{	static SF_BROADCAST_INFO b ; static SF_CART_INFO c ; static SF_CUES q ; SF_INSTRUMENT in ; int map [2] = { SF_CHANNEL_MAP_LEFT, SF_CHANNEL_MAP_RIGHT } ;
	(void) f ;
	vl_inlib ++ ;
	for (int id = SF_STR_FIRST ; id <= SF_STR_LAST ; id++) { char v [24] ; snprintf (v, sizeof (v), "str%02d value", id) ; sf_set_string (sf, id, v) ; }
	memset (&b, 0, sizeof (b)) ; strcpy (b.description, "desc") ; strcpy (b.originator, "orig") ; b.coding_history_size = 8 ; memcpy (b.coding_history, "A=PCM\r\n", 8) ;
	sf_command (sf, SFC_SET_BROADCAST_INFO, &b, sizeof (b)) ;
	memset (&c, 0, sizeof (c)) ; strcpy (c.version, "0101") ; strcpy (c.title, "t") ; c.tag_text_size = 4 ; memcpy (c.tag_text, "tag", 4) ;
	sf_command (sf, SFC_SET_CART_INFO, &c, sizeof (c)) ;
	memset (&q, 0, sizeof (q)) ; q.cue_count = 2 ; q.cue_points [0].indx = 1 ; q.cue_points [0].sample_offset = 1 ; strcpy (q.cue_points [0].name, "one") ; q.cue_points [1].indx = 2 ; q.cue_points [1].sample_offset = 3 ;
	sf_command (sf, SFC_SET_CUE, &q, sizeof (q)) ;
	memset (&in, 0, sizeof (in)) ; in.gain = 1 ; in.basenote = 60 ; in.velocity_hi = 127 ; in.key_hi = 127 ; in.loop_count = 1 ; in.loops [0].mode = SF_LOOP_FORWARD ; in.loops [0].start = 1 ; in.loops [0].end = 3 ;
	sf_command (sf, SFC_SET_INSTRUMENT, &in, sizeof (in)) ;
	sf_command (sf, SFC_SET_CHANNEL_MAP_INFO, map, sizeof (map)) ;
	sf_command (sf, SFC_SET_ADD_PEAK_CHUNK, NULL, SF_TRUE) ;
	for (int i = 0 ; i < 2 ; i++)
	{	SF_CHUNK_INFO ci ; char d [12] = "chunkdata.." ; memset (&ci, 0, sizeof (ci)) ; snprintf (ci.id, sizeof (ci.id), "ck%02d", i) ; ci.id_size = 4 ; ci.datalen = 11 ; ci.data = d ; sf_set_chunk (sf, &ci) ; }
	vl_inlib -- ;
}

static void library_seed (const Fmt *f, int ch, int rich)
{	SF_INFO info ; SNDFILE *sf ; static short w [8192] ; long N ; int rate = fmt_default_rate (f), B ; char name [64] ; Seed *s ; PeekState pk ; sf_count_t off = 0 ;
	if (f->needs_path || ! rt_accepts (f, ch, rate)) return ;
	B = fmt_block (f, ch, rate) ; N = B > 1 && B < 1200 ? 2 * B + 3 : B >= 1200 ? B + 3 : 11 ;
	if (N * ch > 8192) N = 8192 / ch ;
	for (int i = 0 ; i < 8192 ; i++) w [i] = (short) (((i * 37) % 2001 - 1000) * 11) ;
	md_reset (&dev) ; rt_info (&info, f, ch, rate) ; sf = md_open (&dev, SFM_WRITE, &info) ;
	if (! sf) return ;
	if (rich) rich_metadata (sf, f) ;
	vl_write (sf, T_SHORT, 1, w, N) ;
	if (rich) INLIB (sf_set_string (sf, SF_STR_COMMENT, "a trailing comment")) ;
	INLIB (sf_close (sf)) ;
	if (dev.len <= 0) return ;
	/* data offset as the library sees it */
	{	MemDev t ; SF_INFO ri ; md_init (&t) ; md_set (&t, dev.data, dev.len) ; rt_info_read (&ri, f, ch, rate) ; sf = md_open (&t, SFM_READ, &ri) ;
		if (sf) { pk_get (sf, &pk, 0) ; off = pk.dataoffset ; INLIB (sf_close (sf)) ; } md_free (&t) ;
		}
	snprintf (name, sizeof (name), "%s%s:%d", rich ? "rich:" : "", f->name, ch) ;
	{	sf_count_t blockbytes = B > 1 ? (dev.len - off) / 2 + 8 : 32 ;
		s = add_seed (name, major_of (f), dev.data, dev.len, rich ? dev.len : off + blockbytes + 16) ;
		}
	if (! s) return ;
	s->dataoff = off ;
	s->chunk_kind = chunk_kind_of (f->format) ;
	s->wide = (f->format & SF_FORMAT_TYPEMASK) == SF_FORMAT_CAF || (f->format & SF_FORMAT_TYPEMASK) == SF_FORMAT_W64 || (f->format & SF_FORMAT_TYPEMASK) == SF_FORMAT_RF64 ;
	if ((f->format & SF_FORMAT_TYPEMASK) == SF_FORMAT_RAW) { s->raw_format = f->format ; s->raw_ch = ch ; s->raw_rate = rate ; }
}

/* ---- hand-built files carrying chunk types the library never writes */

typedef struct { unsigned char *p ; size_t n, cap ; } Bld ;
static void b_put (Bld *b, const void *d, size_t n) { if (b->n + n > b->cap) { b->cap = (b->n + n) * 2 + 64 ; b->p = realloc (b->p, b->cap) ; } memcpy (b->p + b->n, d, n) ; b->n += n ; }
static void b_u8 (Bld *b, unsigned v) { unsigned char c = v ; b_put (b, &c, 1) ; }
static void b_le16 (Bld *b, unsigned v) { b_u8 (b, v) ; b_u8 (b, v >> 8) ; }
static void b_le32 (Bld *b, uint32_t v) { b_le16 (b, v) ; b_le16 (b, v >> 16) ; }
static void b_be16 (Bld *b, unsigned v) { b_u8 (b, v >> 8) ; b_u8 (b, v) ; }
static void b_be32 (Bld *b, uint32_t v) { b_be16 (b, v >> 16) ; b_be16 (b, v) ; }
static void b_be64 (Bld *b, uint64_t v) { b_be32 (b, v >> 32) ; b_be32 (b, (uint32_t) v) ; }
static void b_str (Bld *b, const char *s) { b_put (b, s, strlen (s)) ; }
static void b_zero (Bld *b, size_t n) { while (n --) b_u8 (b, 0) ; }
static void b_chunk (Bld *b, int be, const char *id, const void *d, uint32_t n)
{	b_put (b, id, 4) ; if (be) b_be32 (b, n) ; else b_le32 (b, n) ; b_put (b, d, n) ; if (n & 1) b_u8 (b, 0) ; }
static void b_fix32 (Bld *b, size_t at, int be, uint32_t v)
{	unsigned char *q = b->p + at ; if (be) { q [0] = v >> 24 ; q [1] = v >> 16 ; q [2] = v >> 8 ; q [3] = v ; } else { q [3] = v >> 24 ; q [2] = v >> 16 ; q [1] = v >> 8 ; q [0] = v ; } }

static void crafted_wav (void)
{	Bld b = { 0 }, c = { 0 } ; Seed *s ;
	b_str (&b, "RIFF") ; b_le32 (&b, 0) ; b_str (&b, "WAVE") ;
	c.n = 0 ; b_le16 (&c, 1) ; b_le16 (&c, 2) ; b_le32 (&c, 8000) ; b_le32 (&c, 32000) ; b_le16 (&c, 4) ; b_le16 (&c, 16) ; b_chunk (&b, 0, "fmt ", c.p, c.n) ;
	c.n = 0 ; b_le32 (&c, 6) ; b_chunk (&b, 0, "fact", c.p, c.n) ;
	c.n = 0 ; b_le32 (&c, 1) ; b_le32 (&c, 1000000000) ; { float v = 0.5f ; b_put (&c, &v, 4) ; b_le32 (&c, 1) ; b_put (&c, &v, 4) ; b_le32 (&c, 2) ; } b_chunk (&b, 0, "PEAK", c.p, c.n) ;
	c.n = 0 ; b_le32 (&c, 2) ; for (int k = 1 ; k <= 2 ; k++) { b_le32 (&c, k) ; b_le32 (&c, k) ; b_str (&c, "data") ; b_le32 (&c, 0) ; b_le32 (&c, 0) ; b_le32 (&c, k) ; } b_chunk (&b, 0, "cue ", c.p, c.n) ;
	c.n = 0 ; b_str (&c, "adtl") ; b_str (&c, "labl") ; b_le32 (&c, 8) ; b_le32 (&c, 1) ; b_str (&c, "one") ; b_u8 (&c, 0) ;
		b_str (&c, "note") ; b_le32 (&c, 9) ; b_le32 (&c, 2) ; b_str (&c, "note") ; b_u8 (&c, 0) ; b_u8 (&c, 0) ;
		b_str (&c, "ltxt") ; b_le32 (&c, 20) ; b_le32 (&c, 1) ; b_le32 (&c, 2) ; b_str (&c, "rgn ") ; b_zero (&c, 8) ; b_chunk (&b, 0, "LIST", c.p, c.n) ;
	c.n = 0 ; b_str (&c, "INFO") ; { static const char *ids [] = { "INAM", "IART", "ICMT", "ICOP", "ICRD", "ISFT", "IGNR", "ITRK", "IPRD", "ISRC", "ISBJ", "IENG", "IARL", "IAUT", NULL } ;
		for (int k = 0 ; ids [k] ; k++) { b_str (&c, ids [k]) ; b_le32 (&c, 6) ; b_str (&c, "value") ; b_u8 (&c, 0) ; } } b_chunk (&b, 0, "LIST", c.p, c.n) ;
	c.n = 0 ; b_le32 (&c, 0) ; b_le32 (&c, 0) ; b_le32 (&c, 125000) ; b_le32 (&c, 60) ; b_le32 (&c, 0) ; b_le32 (&c, 0) ; b_le32 (&c, 0) ; b_le32 (&c, 1) ; b_le32 (&c, 0) ;
		b_le32 (&c, 0) ; b_le32 (&c, 0) ; b_le32 (&c, 1) ; b_le32 (&c, 4) ; b_le32 (&c, 0) ; b_le32 (&c, 0) ; b_chunk (&b, 0, "smpl", c.p, c.n) ;
	c.n = 0 ; b_u8 (&c, 60) ; b_u8 (&c, 0) ; b_u8 (&c, 0) ; b_u8 (&c, 0) ; b_u8 (&c, 127) ; b_u8 (&c, 1) ; b_u8 (&c, 127) ; b_chunk (&b, 0, "inst", c.p, c.n) ;
	c.n = 0 ; b_le32 (&c, 3) ; b_le16 (&c, 60) ; b_le16 (&c, 0x8000) ; b_le32 (&c, 0) ; b_le32 (&c, 4) ; b_le16 (&c, 4) ; b_le16 (&c, 4) ; { float t = 120.f ; b_put (&c, &t, 4) ; } b_chunk (&b, 0, "acid", c.p, c.n) ;
	c.n = 0 ; b_zero (&c, 602) ; memcpy (c.p, "description", 11) ; b_str (&c, "A=PCM,F=8000\r\n") ; b_chunk (&b, 0, "bext", c.p, c.n) ;
	c.n = 0 ; b_str (&c, "0101") ; b_zero (&c, 2044) ; b_str (&c, "tag text") ; b_chunk (&b, 0, "cart", c.p, c.n) ;
	b_chunk (&b, 0, "iXML", "<BWFXML/>", 9) ; b_chunk (&b, 0, "DISP", "\1\0\0\0text", 8) ; b_chunk (&b, 0, "PAD ", "\0\0\0\0", 4) ; b_chunk (&b, 0, "JUNK", "\0\0\0\0\0\0", 6) ;
	b_chunk (&b, 0, "afsp", "AFspdate: 2003-01-30 03:28:44 UTC\0user: x\0", 42) ; b_chunk (&b, 0, "strc", "\0\0\0\0\0\0\0\0", 8) ; b_chunk (&b, 0, "levl", "\0\0\0\0", 4) ;
	b_chunk (&b, 0, "plst", "\0\0\0\0", 4) ; b_chunk (&b, 0, "clm ", "\0\0", 2) ; b_chunk (&b, 0, "MEXT", "\0\0\0\0", 4) ; b_chunk (&b, 0, "exif", "ever\4\0\0\0" "0220", 12) ;
	c.n = 0 ; for (int k = 0 ; k < 12 ; k++) b_le16 (&c, (k * 1000) & 0xffff) ; b_chunk (&b, 0, "data", c.p, c.n) ;
	b_chunk (&b, 0, "id3 ", "ID3\3\0\0\0\0\0\0", 10) ;
	c.n = 0 ; b_str (&c, "INFO") ; b_str (&c, "ICMT") ; b_le32 (&c, 8) ; b_str (&c, "trailer") ; b_u8 (&c, 0) ; b_chunk (&b, 0, "LIST", c.p, c.n) ;
	b_fix32 (&b, 4, 0, (uint32_t) b.n - 8) ;
	s = add_seed ("crafted:wav-all-chunks", "wav", b.p, b.n, b.n) ; if (s) s->chunk_kind = 1 ;
	/* the same behind an ID3v2 tag */
	{	Bld d = { 0 } ; b_str (&d, "ID3") ; b_u8 (&d, 3) ; b_u8 (&d, 0) ; b_u8 (&d, 0) ; b_u8 (&d, 0) ; b_u8 (&d, 0) ; b_u8 (&d, 0) ; b_u8 (&d, 10) ; b_zero (&d, 10) ; b_put (&d, b.p, b.n > 400 ? 400 : b.n) ;
		/* a small plain WAV after the tag */
		d.n = 20 ; b_str (&d, "RIFF") ; b_le32 (&d, 36 + 8) ; b_str (&d, "WAVE") ; b_str (&d, "fmt ") ; b_le32 (&d, 16) ; b_le16 (&d, 1) ; b_le16 (&d, 1) ; b_le32 (&d, 8000) ; b_le32 (&d, 16000) ; b_le16 (&d, 2) ; b_le16 (&d, 16) ;
		b_str (&d, "data") ; b_le32 (&d, 8) ; b_zero (&d, 8) ;
		add_seed ("crafted:id3+wav", "wav", d.p, d.n, d.n) ; free (d.p) ;
		}
	/* RIFX (big-endian RIFF) */
	{	Bld d = { 0 } ; b_str (&d, "RIFX") ; b_be32 (&d, 36 + 8) ; b_str (&d, "WAVE") ; b_str (&d, "fmt ") ; b_be32 (&d, 16) ; b_be16 (&d, 1) ; b_be16 (&d, 1) ; b_be32 (&d, 8000) ; b_be32 (&d, 16000) ; b_be16 (&d, 2) ; b_be16 (&d, 16) ;
		b_str (&d, "data") ; b_be32 (&d, 8) ; b_zero (&d, 8) ;
		s = add_seed ("crafted:rifx", "wav", d.p, d.n, d.n) ; free (d.p) ;
		}
	free (b.p) ; free (c.p) ;
}

static void crafted_aiff (void)
{	Bld b = { 0 }, c = { 0 } ; Seed *s ; static const unsigned char rate80 [10] = { 0x40, 0x0B, 0xFA, 0, 0, 0, 0, 0, 0, 0 } ;
	b_str (&b, "FORM") ; b_be32 (&b, 0) ; b_str (&b, "AIFC") ;
	c.n = 0 ; b_be32 (&c, 0xA2805140) ; b_chunk (&b, 1, "FVER", c.p, c.n) ;
	c.n = 0 ; b_be16 (&c, 2) ; b_be32 (&c, 6) ; b_be16 (&c, 16) ; b_put (&c, rate80, 10) ; b_str (&c, "NONE") ; b_u8 (&c, 14) ; b_str (&c, "not compressed") ; b_u8 (&c, 0) ; b_chunk (&b, 1, "COMM", c.p, c.n) ;
	c.n = 0 ; b_be16 (&c, 3) ; for (int k = 1 ; k <= 3 ; k++) { b_be16 (&c, k) ; b_be32 (&c, k) ; b_u8 (&c, 3) ; b_str (&c, "mrk") ; } b_chunk (&b, 1, "MARK", c.p, c.n) ;
	c.n = 0 ; b_u8 (&c, 60) ; b_u8 (&c, 0) ; b_u8 (&c, 0) ; b_u8 (&c, 127) ; b_u8 (&c, 1) ; b_u8 (&c, 127) ; b_be16 (&c, 0) ; b_be16 (&c, 1) ; b_be16 (&c, 1) ; b_be16 (&c, 2) ; b_be16 (&c, 0) ; b_be16 (&c, 2) ; b_be16 (&c, 3) ; b_chunk (&b, 1, "INST", c.p, c.n) ;
	b_chunk (&b, 1, "NAME", "a name", 6) ; b_chunk (&b, 1, "AUTH", "author", 6) ; b_chunk (&b, 1, "(c) ", "copyright", 9) ; b_chunk (&b, 1, "ANNO", "annotation", 10) ;
	c.n = 0 ; b_be16 (&c, 1) ; b_be32 (&c, 0) ; b_be16 (&c, 1) ; b_be16 (&c, 7) ; b_str (&c, "comment") ; b_u8 (&c, 0) ; b_chunk (&b, 1, "COMT", c.p, c.n) ;
	b_chunk (&b, 1, "APPL", "stoc" "\4name" "data", 13) ;
	c.n = 0 ; b_be32 (&c, 1) ; b_be32 (&c, 1000000000) ; for (int k = 0 ; k < 2 ; k++) { b_be32 (&c, 0x3F000000) ; b_be32 (&c, k) ; } b_chunk (&b, 1, "PEAK", c.p, c.n) ;
	c.n = 0 ; b_be32 (&c, 1) ; b_be16 (&c, 4) ; b_be16 (&c, 60) ; b_be16 (&c, 1) ; b_be16 (&c, 4) ; b_be16 (&c, 4) ; b_be16 (&c, 1) ; b_zero (&c, 66) ; b_chunk (&b, 1, "basc", c.p, c.n) ;
	c.n = 0 ; b_be32 (&c, 0x650002) ; b_be32 (&c, 0) ; b_be32 (&c, 0) ; b_chunk (&b, 1, "CHAN", c.p, c.n) ;
	b_chunk (&b, 1, "MIDI", "\0\0\0\0", 4) ; b_chunk (&b, 1, "SFX!", "\0\0", 2) ;
	c.n = 0 ; b_be32 (&c, 0) ; b_be32 (&c, 0) ; for (int k = 0 ; k < 12 ; k++) b_be16 (&c, (k * 1000) & 0xffff) ; b_chunk (&b, 1, "SSND", c.p, c.n) ;
	b_chunk (&b, 1, "ANNO", "after the data", 14) ;
	b_fix32 (&b, 4, 1, (uint32_t) b.n - 8) ;
	s = add_seed ("crafted:aifc-all-chunks", "aiff", b.p, b.n, b.n) ; if (s) s->chunk_kind = 2 ;
	free (b.p) ; free (c.p) ;
}

static void crafted_svx_voc (void)
{	Bld b = { 0 }, c = { 0 } ; Seed *s ;
	b_str (&b, "FORM") ; b_be32 (&b, 0) ; b_str (&b, "8SVX") ;
	c.n = 0 ; b_be32 (&c, 12) ; b_be32 (&c, 0) ; b_be32 (&c, 0) ; b_be16 (&c, 8000) ; b_u8 (&c, 1) ; b_u8 (&c, 0) ; b_be32 (&c, 0x10000) ; b_chunk (&b, 1, "VHDR", c.p, c.n) ;
	b_chunk (&b, 1, "NAME", "name", 4) ; b_chunk (&b, 1, "ANNO", "anno", 4) ; b_chunk (&b, 1, "AUTH", "auth", 4) ; b_chunk (&b, 1, "(c) ", "copy", 4) ; b_chunk (&b, 1, "CHAN", "\0\0\0\6", 4) ;
	b_chunk (&b, 1, "ATAK", "\0\0\0\0\0\0", 6) ; b_chunk (&b, 1, "RLSE", "\0\0\0\0\0\0", 6) ;
	b_chunk (&b, 1, "BODY", "\1\2\3\4\5\6\7\10\11\12\13\14", 12) ;
	b_fix32 (&b, 4, 1, (uint32_t) b.n - 8) ;
	s = add_seed ("crafted:8svx-all-chunks", "svx", b.p, b.n, b.n) ; if (s) s->chunk_kind = 2 ;
	/* VOC with every block type */
	b.n = 0 ; b_str (&b, "Creative Voice File\x1a") ; b_le16 (&b, 26) ; b_le16 (&b, 0x010A) ; b_le16 (&b, 0x1129) ;
	b_u8 (&b, 8) ; b_u8 (&b, 4) ; b_u8 (&b, 0) ; b_u8 (&b, 0) ; b_le16 (&b, 0xD8F0) ; b_u8 (&b, 0) ; b_u8 (&b, 1) ;			/* extended */
	b_u8 (&b, 1) ; b_u8 (&b, 10) ; b_u8 (&b, 0) ; b_u8 (&b, 0) ; b_u8 (&b, 131) ; b_u8 (&b, 0) ; b_put (&b, "\x80\x81\x82\x83\x84\x85\x86\x87", 8) ;	/* sound data */
	b_u8 (&b, 2) ; b_u8 (&b, 4) ; b_u8 (&b, 0) ; b_u8 (&b, 0) ; b_put (&b, "\x80\x80\x80\x80", 4) ;	/* continuation */
	b_u8 (&b, 3) ; b_u8 (&b, 3) ; b_u8 (&b, 0) ; b_u8 (&b, 0) ; b_le16 (&b, 10) ; b_u8 (&b, 131) ;		/* silence */
	b_u8 (&b, 4) ; b_u8 (&b, 2) ; b_u8 (&b, 0) ; b_u8 (&b, 0) ; b_le16 (&b, 1) ;						/* marker */
	b_u8 (&b, 5) ; b_u8 (&b, 5) ; b_u8 (&b, 0) ; b_u8 (&b, 0) ; b_str (&b, "text") ; b_u8 (&b, 0) ;	/* ascii */
	b_u8 (&b, 6) ; b_u8 (&b, 2) ; b_u8 (&b, 0) ; b_u8 (&b, 0) ; b_le16 (&b, 2) ;						/* repeat */
	b_u8 (&b, 7) ; b_u8 (&b, 0) ; b_u8 (&b, 0) ; b_u8 (&b, 0) ;										/* end repeat */
	b_u8 (&b, 9) ; b_u8 (&b, 20) ; b_u8 (&b, 0) ; b_u8 (&b, 0) ; b_le32 (&b, 8000) ; b_u8 (&b, 16) ; b_u8 (&b, 1) ; b_le16 (&b, 4) ; b_le32 (&b, 0) ; b_zero (&b, 8) ;	/* new sound data */
	b_u8 (&b, 0) ;
	add_seed ("crafted:voc-all-blocks", "voc", b.p, b.n, b.n) ;
	free (b.p) ; free (c.p) ;
}

static void crafted_caf (void)
{	Bld b = { 0 } ; Seed *s ; double rate = 8000.0 ; unsigned char r8 [8] ;
	memcpy (r8, &rate, 8) ; for (int k = 0 ; k < 4 ; k++) { unsigned char t = r8 [k] ; r8 [k] = r8 [7 - k] ; r8 [7 - k] = t ; }
	b_str (&b, "caff") ; b_be16 (&b, 1) ; b_be16 (&b, 0) ;
	b_str (&b, "desc") ; b_be64 (&b, 32) ; b_put (&b, r8, 8) ; b_str (&b, "lpcm") ; b_be32 (&b, 0) ; b_be32 (&b, 4) ; b_be32 (&b, 1) ; b_be32 (&b, 2) ; b_be32 (&b, 16) ;
	b_str (&b, "chan") ; b_be64 (&b, 12) ; b_be32 (&b, 0x650002) ; b_be32 (&b, 0) ; b_be32 (&b, 0) ;
	b_str (&b, "info") ; b_be64 (&b, 4 + 12 + 14) ; b_be32 (&b, 2) ; b_str (&b, "title") ; b_u8 (&b, 0) ; b_str (&b, "value") ; b_u8 (&b, 0) ; b_str (&b, "artist") ; b_u8 (&b, 0) ; b_str (&b, "someone") ; b_u8 (&b, 0) ;
	b_str (&b, "peak") ; b_be64 (&b, 4 + 2 * 12) ; b_be32 (&b, 1) ; for (int k = 0 ; k < 2 ; k++) { b_be32 (&b, 0x3F000000) ; b_be64 (&b, k) ; }
	b_str (&b, "free") ; b_be64 (&b, 8) ; b_zero (&b, 8) ;
	b_str (&b, "kuki") ; b_be64 (&b, 4) ; b_zero (&b, 4) ;
	b_str (&b, "pakt") ; b_be64 (&b, 24) ; b_be64 (&b, 0) ; b_be64 (&b, 0) ; b_be32 (&b, 0) ; b_be32 (&b, 0) ;
	b_str (&b, "uuid") ; b_be64 (&b, 16) ; b_zero (&b, 16) ;
	b_str (&b, "data") ; b_be64 (&b, 4 + 24) ; b_be32 (&b, 0) ; for (int k = 0 ; k < 12 ; k++) b_be16 (&b, (k * 1000) & 0xffff) ;
	s = add_seed ("crafted:caf-all-chunks", "caf", b.p, b.n, b.n) ; if (s) { s->chunk_kind = 3 ; s->wide = 1 ; }
	free (b.p) ;
}

/* files that fill the library's fixed-size tables past their capacity: 40 strings (table of 32), 20 sampler loops (16), 110 cue points
** (growth past 100), 120 AIFF markers - everything else about them is plain */
static void crafted_capacity (void)
{	Bld b = { 0 }, c = { 0 } ; Seed *s ; static const unsigned char rate80 [10] = { 0x40, 0x0B, 0xFA, 0, 0, 0, 0, 0, 0, 0 } ;
	static const char *ids [] = { "INAM", "IART", "ICMT", "ICOP", "ICRD", "ISFT", "IGNR", "ITRK", "IPRD" } ; static const char *aids [] = { "NAME", "AUTH", "ANNO", "(c) " } ;
	/* WAV */
	b_str (&b, "RIFF") ; b_le32 (&b, 0) ; b_str (&b, "WAVE") ;
	c.n = 0 ; b_le16 (&c, 1) ; b_le16 (&c, 1) ; b_le32 (&c, 8000) ; b_le32 (&c, 16000) ; b_le16 (&c, 2) ; b_le16 (&c, 16) ; b_chunk (&b, 0, "fmt ", c.p, c.n) ;
	c.n = 0 ; b_str (&c, "INFO") ; for (int k = 0 ; k < 40 ; k++) { char v [8] ; snprintf (v, sizeof (v), "val%02d", k) ; b_str (&c, ids [k % 9]) ; b_le32 (&c, 6) ; b_str (&c, v) ; b_u8 (&c, 0) ; } b_chunk (&b, 0, "LIST", c.p, c.n) ;
	c.n = 0 ; b_le32 (&c, 0) ; b_le32 (&c, 0) ; b_le32 (&c, 125000) ; b_le32 (&c, 60) ; b_le32 (&c, 0) ; b_le32 (&c, 0) ; b_le32 (&c, 0) ; b_le32 (&c, 20) ; b_le32 (&c, 0) ;
		for (int k = 0 ; k < 20 ; k++) { b_le32 (&c, k) ; b_le32 (&c, k % 3) ; b_le32 (&c, k) ; b_le32 (&c, k + 4) ; b_le32 (&c, 0) ; b_le32 (&c, k) ; } b_chunk (&b, 0, "smpl", c.p, c.n) ;
	c.n = 0 ; b_le32 (&c, 110) ; for (int k = 1 ; k <= 110 ; k++) { b_le32 (&c, k) ; b_le32 (&c, k % 12) ; b_str (&c, "data") ; b_le32 (&c, 0) ; b_le32 (&c, 0) ; b_le32 (&c, k % 12) ; } b_chunk (&b, 0, "cue ", c.p, c.n) ;
	c.n = 0 ; for (int k = 0 ; k < 12 ; k++) b_le16 (&c, (k * 1000) & 0xffff) ; b_chunk (&b, 0, "data", c.p, c.n) ;
	b_fix32 (&b, 4, 0, (uint32_t) b.n - 8) ;
	s = add_seed ("crafted:wav-full-tables", "wav", b.p, b.n, b.n) ; if (s) s->chunk_kind = 1 ;
	/* AIFF */
	b.n = 0 ; b_str (&b, "FORM") ; b_be32 (&b, 0) ; b_str (&b, "AIFF") ;
	c.n = 0 ; b_be16 (&c, 1) ; b_be32 (&c, 12) ; b_be16 (&c, 16) ; b_put (&c, rate80, 10) ; b_chunk (&b, 1, "COMM", c.p, c.n) ;
	for (int k = 0 ; k < 40 ; k++) { char v [8] ; snprintf (v, sizeof (v), "val%02d", k) ; b_chunk (&b, 1, aids [k % 4], v, 5) ; }
	c.n = 0 ; b_be16 (&c, 120) ; for (int k = 1 ; k <= 120 ; k++) { b_be16 (&c, k) ; b_be32 (&c, k % 12) ; b_u8 (&c, 3) ; b_str (&c, "mrk") ; } b_chunk (&b, 1, "MARK", c.p, c.n) ;
	c.n = 0 ; b_be32 (&c, 0) ; b_be32 (&c, 0) ; for (int k = 0 ; k < 12 ; k++) b_be16 (&c, (k * 1000) & 0xffff) ; b_chunk (&b, 1, "SSND", c.p, c.n) ;
	b_fix32 (&b, 4, 1, (uint32_t) b.n - 8) ;
	s = add_seed ("crafted:aiff-full-tables", "aiff", b.p, b.n, b.n) ; if (s) s->chunk_kind = 2 ;
	/* CAF */
	{	double rate = 8000.0 ; unsigned char r8 [8] ; static const char *keys [] = { "title", "artist", "album", "comments", "copyright", "genre", "year", "tracknumber", "recorded date", "encoding application" } ;
		memcpy (r8, &rate, 8) ; for (int k = 0 ; k < 4 ; k++) { unsigned char t = r8 [k] ; r8 [k] = r8 [7 - k] ; r8 [7 - k] = t ; }
		b.n = 0 ; b_str (&b, "caff") ; b_be16 (&b, 1) ; b_be16 (&b, 0) ;
		b_str (&b, "desc") ; b_be64 (&b, 32) ; b_put (&b, r8, 8) ; b_str (&b, "lpcm") ; b_be32 (&b, 0) ; b_be32 (&b, 2) ; b_be32 (&b, 1) ; b_be32 (&b, 1) ; b_be32 (&b, 16) ;
		c.n = 0 ; b_be32 (&c, 40) ; for (int k = 0 ; k < 40 ; k++) { char v [8] ; snprintf (v, sizeof (v), "val%02d", k) ; b_str (&c, keys [k % 10]) ; b_u8 (&c, 0) ; b_str (&c, v) ; b_u8 (&c, 0) ; }
		b_str (&b, "info") ; b_be64 (&b, c.n) ; b_put (&b, c.p, c.n) ;
		b_str (&b, "data") ; b_be64 (&b, 4 + 24) ; b_be32 (&b, 0) ; for (int k = 0 ; k < 12 ; k++) b_be16 (&b, (k * 1000) & 0xffff) ;
		s = add_seed ("crafted:caf-full-tables", "caf", b.p, b.n, b.n) ; if (s) { s->chunk_kind = 3 ; s->wide = 1 ; }
		}
	free (b.p) ; free (c.p) ;
}

void hc_build_seeds (void)
{	if (! dev_ready) { md_init (&dev) ; dev_ready = 1 ; }
	nseeds = 0 ;
	for (int i = 0 ; i < fmt_count ; i++)
	{	const Fmt *f = &fmt_list [i] ;
		library_seed (f, rt_accepts (f, 2, fmt_default_rate (f)) ? 2 : 1, 0) ;
		}
	{	static const char *rich [] = { "wav/pcm_16/file", "wav/float/file", "wavex/pcm_24/file", "rf64/pcm_16/file", "aiff/pcm_16/file", "aiff/float/file", "caf/pcm_16/file", "caf/float/file", "caf/alac_16/file", "w64/pcm_16/file", NULL } ;
		for (int k = 0 ; rich [k] ; k++) { const Fmt *f = fmt_by_name (rich [k]) ; if (f) library_seed (f, 2, 1) ; }
		}
	crafted_wav () ; crafted_aiff () ; crafted_svx_voc () ; crafted_caf () ; crafted_capacity () ;
	if (vl_opts.thorough)
		for (int i = 0 ; i < fmt_count ; i++)
		{	const Fmt *f = &fmt_list [i] ;
			if (rt_accepts (f, 2, fmt_default_rate (f))) library_seed (f, 1, 0) ;
			}
}

/* ---------------------------------------------------------------- mutation families (lazy: a Mut names the edit, hc_materialise applies it) */

static const uint32_t w32_values [] = { 0, 1, 0x7FFFFFFF, 0x80000000u, 0xFFFFFFFFu, 0xFFFFFFFEu, 0x10000, 0xFFFF, 0x100, 0xFF, 0x8000, 0x7FFF, 2, 3, 0x7F, 0x80, 0xFFFFFF, 0x1000000, 0xFFFFFF00u } ;
static const uint16_t w16_values [] = { 0, 1, 0xFFFF, 0x8000, 0x7FFF, 0x100, 2, 0x7F, 0x80, 0xFF, 0x401 } ;
static const uint64_t w64_values [] = { 0, 1, 0xFFFFFFFFFFFFFFFFull, 0x7FFFFFFFFFFFFFFFull, 0x8000000000000000ull, 0x100000000ull, 0xFFFFFFFFull, 0xFFFFFFFFFFFFFFF0ull } ;
#define NW32 ((int) (sizeof (w32_values) / sizeof (w32_values [0])))
#define NW16 ((int) (sizeof (w16_values) / sizeof (w16_values [0])))
#define NW64 ((int) (sizeof (w64_values) / sizeof (w64_values [0])))

static void put_word (unsigned char *p, uint64_t v, int bytes, int be)
{	for (int k = 0 ; k < bytes ; k++) p [be ? bytes - 1 - k : k] = (unsigned char) (v >> (8 * k)) ; }

/* chunk table of a seed */
typedef struct { sf_count_t at, hdr, size, total ; } Chunk ;
static int walk_chunks (const Seed *s, Chunk *c, int max)
{	sf_count_t p = s->chunk_kind == 3 ? 8 : 12 ; int n = 0 ;
	while (n < max)
	{	if (s->chunk_kind == 3)
		{	uint64_t sz = 0 ; if (p + 12 > s->len) break ;
			for (int k = 0 ; k < 8 ; k++) sz = (sz << 8) | s->data [p + 4 + k] ;
			c [n].at = p ; c [n].hdr = 12 ; c [n].size = sz > (uint64_t) (s->len - p - 12) ? s->len - p - 12 : (sf_count_t) sz ; c [n].total = 12 + c [n].size ;
			}
		else
		{	uint32_t sz ; if (p + 8 > s->len) break ;
			sz = s->chunk_kind == 1 ? (uint32_t) s->data [p + 4] | (uint32_t) s->data [p + 5] << 8 | (uint32_t) s->data [p + 6] << 16 | (uint32_t) s->data [p + 7] << 24
				: (uint32_t) s->data [p + 7] | (uint32_t) s->data [p + 6] << 8 | (uint32_t) s->data [p + 5] << 16 | (uint32_t) s->data [p + 4] << 24 ;
			c [n].at = p ; c [n].hdr = 8 ; c [n].size = sz > (uint64_t) (s->len - p - 8) ? s->len - p - 8 : (sf_count_t) sz ;
			c [n].total = 8 + c [n].size + (c [n].size & 1) ; if (p + c [n].total > s->len) c [n].total = s->len - p ;
			}
		p += c [n].total ; n ++ ;
		if (p >= s->len) break ;
		}
	return n ;
}

static const char *riff_ids [] = { "fmt ", "fact", "cue ", "LIST", "smpl", "inst", "acid", "bext", "cart", "PEAK", "iXML", "DISP", "PAD ", "JUNK", "data", "afsp", "strc", "levl", "plst", "exif", "id3 ", "ds64", "wavl", "slnt", "clm ", "ID3\3", NULL } ;
static const char *iff_ids [] = { "COMM", "SSND", "MARK", "INST", "APPL", "CHAN", "(c) ", "NAME", "AUTH", "ANNO", "COMT", "FVER", "PEAK", "basc", "SFX!", "VHDR", "BODY", "ATAK", "RLSE", "FORM", NULL } ;
static const char *caf_ids [] = { "desc", "data", "chan", "info", "peak", "free", "kuki", "pakt", "uuid", "edct", "strg", "mark", "regn", "inst", "midi", "ovvw", "umid", NULL } ;


static Chunk cur_chunks [64] ; static int cur_nchunks ; static const Seed *cur_chunk_seed ;
static void chunks_of (const Seed *s) { if (cur_chunk_seed != s) { cur_nchunks = s->chunk_kind ? walk_chunks (s, cur_chunks, 64) : 0 ; cur_chunk_seed = s ; } }

static const char *fam_names [M_NKINDS] = { "identity", "truncate", "byte", "word16", "word32", "word64", "chunk-delete", "chunk-duplicate", "chunk-swap", "chunk-to-end", "chunk-retag", "chunk-shrink", "bytes", "data-fill" } ;
const char *hc_family (const Mut *m) { return fam_names [m->kind] ; }

void hc_describe (const Mut *m, char *buf, size_t n)
{	switch (m->kind)
	{	case M_IDENT : snprintf (buf, n, "-") ; break ;
		case M_TRUNC : snprintf (buf, n, "to=%lld", (long long) m->a) ; break ;
		case M_BYTE : snprintf (buf, n, "at=%lld value=0x%02x", (long long) m->a, (unsigned) m->v) ; break ;
		case M_W16 : snprintf (buf, n, "at=%lld %s=0x%04x", (long long) m->a, m->be ? "be" : "le", (unsigned) m->v) ; break ;
		case M_W32 : snprintf (buf, n, "at=%lld %s=0x%08x", (long long) m->a, m->be ? "be" : "le", (unsigned) m->v) ; break ;
		case M_W64 : snprintf (buf, n, "at=%lld %s=0x%016llx", (long long) m->a, m->be ? "be" : "le", (unsigned long long) m->v) ; break ;
		case M_CRETAG : snprintf (buf, n, "chunk=%lld id=%02x%02x%02x%02x", (long long) m->a, (unsigned char) m->id [0], (unsigned char) m->id [1], (unsigned char) m->id [2], (unsigned char) m->id [3]) ; break ;
		case M_CSHRINK : snprintf (buf, n, "chunk=%lld payload=%lld", (long long) m->a, (long long) m->b) ; break ;
		case M_FILL : snprintf (buf, n, "from=%lld value=0x%02x extend-to=%lld", (long long) m->a, (unsigned) m->v, (long long) m->b) ; break ;
		case M_RAW :
			{	size_t o = snprintf (buf, n, "len=%d ", m->rawlen) ;
				if (m->rawlen <= 4) for (int k = 0 ; k < m->rawlen && o + 3 < n ; k++) o += snprintf (buf + o, n - o, "%02x", m->raw [k]) ;
				else snprintf (buf + o, n - o, "magic=%lld fill=0x%02x at=%lld value=0x%02x", (long long) m->a, (unsigned) m->be, (long long) m->b, (unsigned) m->v) ;
				}
			break ;
		default : snprintf (buf, n, "chunk=%lld", (long long) m->a) ; break ;
		}
}

/* out must hold 2 * s->len + 4096 bytes */
sf_count_t hc_materialise (const Seed *s, const Mut *m, unsigned char *out)
{	const Chunk *c ; sf_count_t L = s->len ;
	if (m->kind >= M_CDEL && m->kind <= M_CSHRINK) { chunks_of (s) ; if (m->a >= cur_nchunks) { memcpy (out, s->data, L) ; return L ; } }
	c = &cur_chunks [m->kind >= M_CDEL && m->kind <= M_CSHRINK ? m->a : 0] ;
	switch (m->kind)
	{	case M_IDENT : memcpy (out, s->data, L) ; return L ;
		case M_FILL :
			{	sf_count_t T = m->b > L ? m->b : L ;	/* b: total length to extend to (headerless seeds are short) */
				memcpy (out, s->data, L) ; if (m->a < T) memset (out + m->a, (int) m->v, T - m->a) ; return T ;
				}
		case M_TRUNC : memcpy (out, s->data, m->a) ; return m->a ;
		case M_BYTE : memcpy (out, s->data, L) ; out [m->a] = (unsigned char) m->v ; return L ;
		case M_W16 : memcpy (out, s->data, L) ; put_word (out + m->a, m->v, 2, m->be) ; return L ;
		case M_W32 : memcpy (out, s->data, L) ; put_word (out + m->a, m->v, 4, m->be) ; return L ;
		case M_W64 : memcpy (out, s->data, L) ; put_word (out + m->a, m->v, 8, m->be) ; return L ;
		case M_CDEL : memcpy (out, s->data, c->at) ; memcpy (out + c->at, s->data + c->at + c->total, L - c->at - c->total) ; return L - c->total ;
		case M_CDUP : memcpy (out, s->data, c->at + c->total) ; memcpy (out + c->at + c->total, s->data + c->at, L - c->at) ; return L + c->total ;
		case M_CSWAP :
			memcpy (out, s->data, L) ;
			if (m->a + 1 < cur_nchunks) { memcpy (out + c->at, s->data + c [1].at, c [1].total) ; memcpy (out + c->at + c [1].total, s->data + c->at, c->total) ; }
			return L ;
		case M_CEND : memcpy (out, s->data, c->at) ; memcpy (out + c->at, s->data + c->at + c->total, L - c->at - c->total) ; memcpy (out + L - c->total, s->data + c->at, c->total) ; return L ;
		case M_CRETAG : memcpy (out, s->data, L) ; memcpy (out + c->at, m->id, 4) ; return L ;
		case M_CSHRINK :
			{	sf_count_t keep = m->b, pad = s->chunk_kind == 3 ? 0 : (keep & 1), tail = L - c->at - c->total, at = c->at ;
				memcpy (out, s->data, at + c->hdr + keep) ;
				if (s->chunk_kind == 3) put_word (out + at + 4, keep, 8, 1) ; else put_word (out + at + 4, keep, 4, s->chunk_kind == 2) ;
				if (pad) out [at + c->hdr + keep] = 0 ;
				memcpy (out + at + c->hdr + keep + pad, s->data + c->at + c->total, tail) ;
				return at + c->hdr + keep + pad + tail ;
				}
		default : memcpy (out, m->raw, m->rawlen) ; return m->rawlen ;
		}
}

/* positions of a seed that get the byte / word families.
** The first seed of a container is its reference and gets every header position; the others get the positions
** where they differ from the reference (the encoding-specific fields, +-2 bytes) and the start of their data
** (block headers of the codecs). Thorough: every seed gets every header position. */
static const Seed *ref_of (const Seed *s)
{	for (int i = 0 ; i < hc_nseeds ; i++) if (! strcmp (hc_seeds [i].fam, s->fam) && hc_seeds [i].chunk_kind == s->chunk_kind) return &hc_seeds [i] ;
	return s ;
}
int hc_is_reference (const Seed *s) { return ref_of (s) == s || ! strncmp (s->name, "rich:", 5) || ! strncmp (s->name, "crafted:", 8) ; }

static int positions_of (const Seed *s, sf_count_t *q, int max)
{	const Seed *r = ref_of (s) ; int n = 0 ; sf_count_t cap = vl_opts.thorough ? 1200 : 600 ;
	if (vl_opts.thorough || r == s || ! strncmp (s->name, "rich:", 5) || ! strncmp (s->name, "crafted:", 8))
	{	for (sf_count_t p = 0 ; p < s->hdr && p < cap && n < max ; p++) q [n ++] = p ; return n ; }
	for (sf_count_t p = 0 ; p < s->hdr && p < cap && n < max ; p++)
	{	int differs = 0 ;
		for (sf_count_t d = p - 2 ; d <= p + 2 ; d++) if (d >= 0 && d < s->len && (d >= r->len || s->data [d] != r->data [d])) differs = 1 ;
		if (differs || p >= s->dataoff) q [n ++] = p ;
		}
	return n ;
}

void hc_seed_families (const Seed *s, HcRun run)
{	int all = (1 << HR_VIO) | (1 << HR_PIPE) | (1 << HR_FD), vio = 1 << HR_VIO ;
	int light = (1 << HR_VIO) | (vl_opts.thorough ? (1 << HR_PIPE) | (1 << HR_FD) : 0) ;
	static sf_count_t q [1300] ; int nq = positions_of (s, q, 1300) ; Mut m ;
	int nb = vl_opts.thorough ? 8 : 6, n16 = vl_opts.thorough ? NW16 : 5, n32 = vl_opts.thorough ? NW32 : 10, n64 = vl_opts.thorough ? NW64 : 5 ;
	memset (&m, 0, sizeof (m)) ;
	m.kind = M_IDENT ; run (s, &m, all, 1) ;
	/* T: every truncation */
	m.kind = M_TRUNC ; for (m.a = 0 ; m.a < s->len ; m.a ++) run (s, &m, all, m.a < s->hdr) ;
	/* B: header bytes replaced */
	m.kind = M_BYTE ;
	for (int i = 0 ; i < nq ; i++)
	{	unsigned char o = s->data [q [i]], vals [8] = { 0x00, 0xFF, 0x7F, 0x80, (unsigned char) (o ^ 0x01), (unsigned char) (o + 1), (unsigned char) (o - 1), (unsigned char) (o ^ 0x20) } ;
		m.a = q [i] ;
		if (vl_opts.thorough && q [i] < 48) { for (int v = 0 ; v < 256 ; v++) if (v != o) { m.v = v ; run (s, &m, vio, 0) ; } continue ; }
		for (int v = 0 ; v < nb ; v++)
		{	int dup = vals [v] == o ; for (int u = 0 ; u < v ; u++) if (vals [u] == vals [v]) dup = 1 ;
			if (! dup) { m.v = vals [v] ; run (s, &m, light, 0) ; }
			}
		}
	/* W16 / W32 / W64: boundary values at every position, both byte orders */
	m.kind = M_W16 ;
	for (int i = 0 ; i < nq ; i++) for (m.be = 0 ; m.be < 2 ; m.be ++) for (int v = 0 ; v < n16 ; v++)
	{	unsigned char t [2] ; m.a = q [i] ; m.v = w16_values [v] ; if (m.a + 2 > s->len) continue ;
		put_word (t, m.v, 2, m.be) ; if (! memcmp (t, s->data + m.a, 2)) continue ;
		run (s, &m, vio, 0) ;
		}
	m.kind = M_W32 ;
	for (int i = 0 ; i < nq ; i++) for (m.be = 0 ; m.be < 2 ; m.be ++)
	{	uint32_t extra [4] = { (uint32_t) s->len, (uint32_t) s->len + 1, (uint32_t) s->len - 1, (uint32_t) (s->len - q [i]) } ;
		for (int v = 0 ; v < n32 + 4 ; v++)
		{	unsigned char t [4] ; m.a = q [i] ; m.v = v < n32 ? w32_values [v] : extra [v - n32] ; if (m.a + 4 > s->len) continue ;
			put_word (t, m.v, 4, m.be) ; if (! memcmp (t, s->data + m.a, 4)) continue ;
			run (s, &m, light | (hc_is_reference (s) ? 1 << HR_PIPE : 0), 0) ;	/* size fields also over a pipe: the header stays cached, skips cannot seek */
			}
		}
	if (s->wide)
	{	m.kind = M_W64 ;
		for (int i = 0 ; i < nq ; i++) for (m.be = 0 ; m.be < 2 ; m.be ++) for (int v = 0 ; v < n64 ; v++)
		{	unsigned char t [8] ; m.a = q [i] ; m.v = w64_values [v] ; if (m.a + 8 > s->len) continue ;
			put_word (t, m.v, 8, m.be) ; if (! memcmp (t, s->data + m.a, 8)) continue ;
			run (s, &m, vio, 0) ;
			}
		}
	/* F: the whole data region set to one byte value, every value (saturating / degenerate codec input) */
	m.kind = M_FILL ; m.a = s->dataoff ; m.be = 0 ;
	if (s->dataoff < s->len)
	{	static const unsigned char few [16] = { 0x00, 0x01, 0x07, 0x08, 0x0f, 0x10, 0x55, 0x70, 0x77, 0x7f, 0x80, 0x88, 0xaa, 0xf0, 0xf7, 0xff } ;
		int all = vl_opts.thorough || hc_is_reference (s) || s->raw_format != 0 ;	/* quick: every value for the reference and the headerless seeds, 16 values for the others */
		for (int k = 0 ; k < (all ? 256 : 16) ; k++) { m.v = all ? k : few [k] ; m.b = 0 ; run (s, &m, vio, 0) ; m.b = s->dataoff + 2048 ; run (s, &m, vio, 0) ; }
		}
	m.a = 0 ; m.v = 0 ; m.b = 0 ;
	/* C: chunk edits */
	if (s->chunk_kind)
	{	const char **ids = s->chunk_kind == 1 ? riff_ids : s->chunk_kind == 2 ? iff_ids : caf_ids ; int n ;
		chunks_of (s) ; n = cur_nchunks ; m.be = 0 ; m.v = 0 ;
		for (int i = 0 ; i < n ; i++)
		{	sf_count_t at = cur_chunks [i].at, size = cur_chunks [i].size ;
			m.a = i ;
			m.kind = M_CDEL ; run (s, &m, light, 0) ;
			m.kind = M_CDUP ; run (s, &m, light, 0) ;
			if (i + 1 < n) { m.kind = M_CSWAP ; run (s, &m, light, 0) ; }
			m.kind = M_CEND ; run (s, &m, vio, 0) ;
			m.kind = M_CRETAG ;
			for (int k = 0 ; ids [k] ; k++) if (memcmp (s->data + at, ids [k], 4)) { m.id = ids [k] ; run (s, &m, vio, 0) ; }
			m.kind = M_CSHRINK ;
			for (m.b = 0 ; m.b < size && m.b < 40 ; m.b ++) run (s, &m, vio, 0) ;
			m.b = 0 ;
			}
		}
}

/* U: unconstrained bytes */
void hc_unconstrained (HcRun run)
{	static Seed u ; static unsigned char magics [MAXSEEDS] [12] ; int nm = 0 ; Mut m ;
	memset (&u, 0, sizeof (u)) ; snprintf (u.name, sizeof (u.name), "none") ; snprintf (u.fam, sizeof (u.fam), "unconstrained") ;
	memset (&m, 0, sizeof (m)) ; m.kind = M_RAW ;
	/* every byte string of length 0, 1 and 2; length 3 and 4 over a 12-value alphabet */
	m.rawlen = 0 ; run (&u, &m, 7, 0) ;
	m.rawlen = 1 ; for (int a = 0 ; a < 256 ; a++) { m.raw [0] = a ; run (&u, &m, 7, 0) ; }
	m.rawlen = 2 ; for (int a = 0 ; a < 256 ; a++) for (int b = 0 ; b < 256 ; b++) { m.raw [0] = a ; m.raw [1] = b ; run (&u, &m, 1, 0) ; }
	{	static const unsigned char al [12] = { 0x00, 0x01, 0x1a, 0x20, 'R', 'F', '.', 0x7f, 0x80, 0xfe, 0xff, 'd' } ;
		for (int a = 0 ; a < 12 ; a++) for (int b = 0 ; b < 12 ; b++) for (int c = 0 ; c < 12 ; c++)
		{	m.raw [0] = al [a] ; m.raw [1] = al [b] ; m.raw [2] = al [c] ; m.rawlen = 3 ; run (&u, &m, 1, 0) ;
			for (int d = 0 ; d < 12 ; d++) { m.raw [3] = al [d] ; m.rawlen = 4 ; run (&u, &m, 1, 0) ; }
			}
		}
	/* every distinct 12-byte magic of the seeds, followed by 84 fill bytes with one position set to every value */
	for (int i = 0 ; i < hc_nseeds ; i++)
	{	int dup = 0 ; unsigned char mg [12] = { 0 } ; memcpy (mg, hc_seeds [i].data, hc_seeds [i].len < 12 ? hc_seeds [i].len : 12) ;
		if (hc_seeds [i].raw_format) continue ;
		mg [4] = mg [5] = mg [6] = mg [7] = 0 ;	/* container size fields are part of the varied region */
		for (int k = 0 ; k < nm ; k++) if (! memcmp (magics [k], mg, 12)) dup = 1 ;
		if (! dup) memcpy (magics [nm ++], mg, 12) ;
		}
	m.rawlen = 96 ;
	for (int k = 0 ; k < nm ; k++)
		for (int bg = 0 ; bg < 3 ; bg++)
		{	unsigned char fill = bg == 0 ? 0x00 : bg == 1 ? 0xFF : 0x01 ; int step = vl_opts.thorough ? 1 : 5 ;
			m.a = k ; m.be = fill ;
			memset (m.raw, fill, 96) ; memcpy (m.raw, magics [k], 12) ; m.raw [4] = m.raw [5] = m.raw [6] = m.raw [7] = fill ;
			m.b = 0 ; m.v = m.raw [0] ; run (&u, &m, 7, 0) ;
			for (int p = 4 ; p < 96 ; p++)
			{	unsigned char keep = m.raw [p] ;
				for (int v = 0 ; v < 256 ; v += step) { if (v == keep) continue ; m.raw [p] = v ; m.b = p ; m.v = v ; run (&u, &m, 1, 0) ; }
				m.raw [p] = keep ;
				}
			}
}
