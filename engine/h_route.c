/* h_route.c - C14: path, descriptor, virtual-I/O, embedded and pipe access give identical results. */
#define _GNU_SOURCE
#include "vlib.h"
#include "rt_common.h"
#include "hostile_core.h"
#include <unistd.h>
#include <fcntl.h>
#include <errno.h>
#include <sys/stat.h>

const char *harness_name = "h_route" ;

static MemDev dev ;
static char tmpdir [400] ;

enum { R_VIO = 0, R_PATH, R_FD_KEEP, R_FD_CLOSE, R_EMBED1, R_EMBED44, R_EMBED4097, R_EMBED20END, R_PIPE, R_NROUTES } ;
static const char *route_name [R_NROUTES] = { "vio", "path", "fd-keep", "fd-close", "embed@1", "embed@44", "embed@4097", "embed@20-last", "pipe" } ;
static const char *route_class [R_NROUTES] = { "vio", "path", "fd", "fd", "embed", "embed", "embed", "embed", "pipe" } ;
static const int embed_off [R_NROUTES] = { 0, 0, 0, 0, 1, 44, 4097, 20, 0 } ;
static const int embed_trail [R_NROUTES] = { 0, 0, 0, 0, 37, 37, 37, 0, 0 } ;	/* bytes of other data behind the embedded file; the last one is the last thing in its container */

typedef struct
{	int opened, err ; SF_INFO info ; uint64_t samples [T_NTYPES] ; sf_count_t nread [T_NTYPES] ; uint64_t strings ; int fd_open_after, lib_fds_after, close_rc ;
} Obs ;

static int embeddable (const Fmt *f) { int m = f->format & SF_FORMAT_TYPEMASK ; return m == SF_FORMAT_WAV || m == SF_FORMAT_WAVEX || m == SF_FORMAT_AIFF || m == SF_FORMAT_AU ; }	/* WAVEX is the WAV container */

static int write_all (int fd, const void *p, size_t n)
{	const char *c = p ; while (n > 0) { long w = sio_real_write (fd, c, n) ; if (w <= 0) return 0 ; c += w ; n -= w ; } return 1 ;
}

static void path_for (char *out, size_t n, const Fmt *f, const char *tag)
{	const char *ext = (f->format & SF_FORMAT_TYPEMASK) == SF_FORMAT_SD2 ? "sd2" : "dat" ;	/* an extension the library attaches no meaning to */
	snprintf (out, n, "%s/c14_%s.%s", tmpdir, tag, ext) ;
}

static void cleanup_path (const char *path)
{	char rs [500] ; const char *slash = strrchr (path, '/') ;
	unlink (path) ;
	snprintf (rs, sizeof (rs), "%.*s/._%s", (int) (slash - path), path, slash + 1) ; unlink (rs) ;
}

/* open `bytes` for reading through the route; *fd_out receives the descriptor the harness owns (or -1) */
static SNDFILE *open_read (int route, const Fmt *f, int ch, const unsigned char *bytes, sf_count_t len, SF_INFO *info, int *fd_out, char *path_out)
{	SNDFILE *sf = NULL ; int fd = -1 ; static const unsigned char junk [64] = "leading junk that is not a sound file, and then some more of it" ;
	rt_info_read (info, f, ch, fmt_default_rate (f)) ; *fd_out = -1 ; path_out [0] = 0 ;
	switch (route)
	{	case R_VIO : md_set (&dev, bytes, len) ; sf = md_open (&dev, SFM_READ, info) ; break ;
		case R_PATH :
			path_for (path_out, 450, f, "r") ;
			fd = sio_real_open (path_out, O_WRONLY | O_CREAT | O_TRUNC, 0600) ; write_all (fd, bytes, len) ; sio_real_close (fd) ;
			INLIB (sf = sf_open (path_out, SFM_READ, info)) ;
			break ;
		case R_FD_KEEP : case R_FD_CLOSE :
			fd = sio_memfd ("c14") ; write_all (fd, bytes, len) ; sio_real_lseek (fd, 0, SEEK_SET) ;
			sio_track_close_of (fd) ;
			INLIB (sf = sf_open_fd (fd, SFM_READ, info, route == R_FD_CLOSE)) ; *fd_out = fd ;
			break ;
		case R_EMBED1 : case R_EMBED44 : case R_EMBED4097 : case R_EMBED20END :
			fd = sio_memfd ("c14e") ;
			for (int k = 0 ; k < embed_off [route] ; k += 64) write_all (fd, junk, embed_off [route] - k < 64 ? embed_off [route] - k : 64) ;
			write_all (fd, bytes, len) ; write_all (fd, junk, embed_trail [route]) ;
			sio_real_lseek (fd, embed_off [route], SEEK_SET) ;
			sio_track_close_of (fd) ;
			INLIB (sf = sf_open_fd (fd, SFM_READ, info, SF_FALSE)) ; *fd_out = fd ;
			break ;
		case R_PIPE :
			{	int p [2] ; if (pipe (p) != 0) return NULL ;
				fcntl (p [1], F_SETPIPE_SZ, 1 << 20) ;
				write_all (p [1], bytes, len) ; sio_real_close (p [1]) ;
				sio_track_close_of (p [0]) ;
				INLIB (sf = sf_open_fd (p [0], SFM_READ, info, SF_FALSE)) ; *fd_out = p [0] ;
				}
			break ;
		}
	return sf ;
}

static void observe_read (int route, const Fmt *f, int ch, const unsigned char *bytes, sf_count_t len, Obs *o)
{	memset (o, 0, sizeof (*o)) ;
	for (int t = 0 ; t < T_NTYPES ; t++)
	{	SF_INFO info ; int fd ; char path [460] ; SNDFILE *sf ; sio_reset_fds () ;
		sf = open_read (route, f, ch, bytes, len, &info, &fd, path) ;
		if (t == 0)
		{	o->opened = sf != NULL ; INLIB (o->err = sf ? 0 : sf_error (NULL)) ; if (sf) o->info = info ; }
		if (sf)
		{	long F = info.frames > 0 && info.frames < 100000 ? info.frames : 0 ; void *buf = calloc ((F + 4) * (info.channels > 0 ? info.channels : 1), 8) ; sf_count_t r ;
			if (t == 0)
			{	uint64_t h = VL_H0 ; for (int st = SF_STR_FIRST ; st <= SF_STR_LAST ; st++) { const char *s ; INLIB (s = sf_get_string (sf, st)) ; if (s) h = vl_hash (s, strlen (s), vl_hash_u64 (st, h)) ; if (s && vl_replaying ()) vl_note ("%s string %d = '%s'", route_name [route], st, s) ; }
				o->strings = h ;
				}
			r = vl_read (sf, t, 1, buf, F + 3) ;
			o->nread [t] = r ; o->samples [t] = r > 0 ? vl_hash (buf, r * info.channels * type_size [t], VL_H0) : 0 ;
			free (buf) ;
			INLIB (o->close_rc = sf_close (sf)) ;
			}
		if (fd >= 0)
		{	if (t == 0) { o->fd_open_after = sio_fd_is_open (fd) ; o->lib_fds_after = (int) sio_lib_fds_open () ; }
			if (sio_fd_is_open (fd)) sio_real_close (fd) ;
			}
		else if (t == 0) o->lib_fds_after = (int) sio_lib_fds_open () ;
		if (path [0]) cleanup_path (path) ;
		if (! sf && t == 0) break ;
		if (route == R_PIPE && t == 0) { /* a pipe can be read once per open: the other types are read through fresh pipes in the next iterations */ }
		}
}

static int info_equal (const SF_INFO *a, const SF_INFO *b, int ignore_seekable)
{	return a->frames == b->frames && a->samplerate == b->samplerate && a->channels == b->channels && a->format == b->format && a->sections == b->sections && (ignore_seekable || a->seekable == b->seekable) ;
}

static void build_file (const Fmt *f, int ch, long N, int with_string, unsigned char **bytes, sf_count_t *len)
{	SF_INFO info ; SNDFILE *sf ; short *buf = malloc ((N + 1) * ch * 2) ;
	for (long i = 0 ; i < N * ch ; i++) buf [i] = (short) (((i * 41) % 1999 - 999) * 16) ;
	md_reset (&dev) ; rt_info (&info, f, ch, fmt_default_rate (f)) ; sf = md_open (&dev, SFM_WRITE, &info) ;
	*bytes = NULL ; *len = 0 ;
	if (! sf) { free (buf) ; return ; }
	if (with_string) INLIB (sf_set_string (sf, SF_STR_TITLE, "route test")) ;
	vl_write (sf, T_SHORT, 1, buf, N) ; INLIB (sf_close (sf)) ; free (buf) ;
	*len = dev.len ; *bytes = malloc (dev.len + 1) ; memcpy (*bytes, dev.data, dev.len) ;
}

/* the same bytes through every route, compared with virtual I/O. samples_only_on_pipe: files with chunks behind the audio - the
** statement promises the same samples on a pipe, not the metadata that can only be reached by seeking past the audio */
static uint64_t compare_routes (const Fmt *f, int ch, const unsigned char *bytes, sf_count_t len, int variant, const char *rs, int samples_only_on_pipe)
{	Obs ref, o ; int major = f->format & SF_FORMAT_TYPEMASK ; uint64_t oh = VL_H0 ;
	observe_read (R_VIO, f, ch, bytes, len, &ref) ;
	for (int route = R_PATH ; route < R_NROUTES ; route++)
	{	int is_embed = route >= R_EMBED1 && route <= R_EMBED20END, pipe_ok ;
		if (route == R_PIPE)
		{	pipe_ok = (major == SF_FORMAT_WAV || major == SF_FORMAT_WAVEX || major == SF_FORMAT_AIFF || major == SF_FORMAT_AU) && f->gran && len < 900000 && variant == 0 ;	/* the pipe claim is about well-formed files */
			if (! pipe_ok) continue ;
			}
		if (is_embed && variant != 0) continue ;
		if (is_embed && major == SF_FORMAT_RAW) continue ;	/* headerless: no notion of an embedded file */
		observe_read (route, f, ch, bytes, len, &o) ;
		vl_note ("%s: opened=%d err=%d frames=%lld read=%lld", route_name [route], o.opened, o.err, (long long) o.info.frames, (long long) o.nread [0]) ;
		vl_count_transitions (1) ;
		oh = vl_hash_u64 (o.opened, vl_hash_u64 (o.samples [0], oh)) ;
		if (is_embed && ! embeddable (f))
		{	if (o.opened || o.err == 0) vl_violation (rt_sig ("%s|%s|non-embeddable-accepted", rs, route_class [route]), "container without embedding support opened at offset %d (opened=%d, error=%d)", embed_off [route], o.opened, o.err) ;
			}
		else if (o.opened != ref.opened || (! o.opened && o.err == 0))	/* which error code is reported depends on route-specific fall-backs (file extension, resource fork): only success / failure is compared */
			vl_violation (rt_sig ("%s|%s|open-outcome%s", rs, route_class [route], variant ? "-malformed" : ""), "opened=%d error=%d (%s) through %s, opened=%d error=%d (%s) through virtual I/O (variant %d)", o.opened, o.err, sf_error_number (o.err), route_name [route], ref.opened, ref.err, sf_error_number (ref.err), variant) ;
		else if (o.opened)
		{	if (route == R_PIPE && samples_only_on_pipe) { o.info = ref.info ; o.strings = ref.strings ; }
			if (! info_equal (&o.info, &ref.info, route == R_PIPE))
				vl_violation (rt_sig ("%s|%s|sf-info", rs, route_class [route]), "SF_INFO differs: frames %lld/%lld rate %d/%d ch %d/%d format 0x%x/0x%x seekable %d/%d", (long long) o.info.frames, (long long) ref.info.frames,
					o.info.samplerate, ref.info.samplerate, o.info.channels, ref.info.channels, o.info.format, ref.info.format, o.info.seekable, ref.info.seekable) ;
			for (int t = 0 ; t < T_NTYPES ; t++)
				if (o.nread [t] != ref.nread [t] || o.samples [t] != ref.samples [t])
				{	vl_violation (rt_sig ("%s|%s|samples", rs, route_class [route]), "%s samples differ from virtual I/O (%lld vs %lld frames read)", type_names [t], (long long) o.nread [t], (long long) ref.nread [t]) ; break ; }
			if (o.strings != ref.strings) vl_violation (rt_sig ("%s|%s|strings", rs, route_class [route]), "string metadata differs from virtual I/O") ;
			if (o.close_rc != 0) vl_violation (rt_sig ("%s|%s|close-nonzero", rs, route_class [route]), "sf_close returned %d", o.close_rc) ;
			}
		/* descriptor discipline */
		if (route == R_FD_CLOSE && o.opened && o.fd_open_after) vl_violation (rt_sig ("%s|close_desc-not-closed", rs), "descriptor still open after sf_close although close_desc was true") ;
		if ((route == R_FD_KEEP || is_embed || route == R_PIPE) && ! o.fd_open_after) vl_violation (rt_sig ("%s|%s|descriptor-closed", rs, route_class [route]), "sf_close (or the failed open) closed a descriptor passed with close_desc = 0") ;
		if (o.lib_fds_after != 0) vl_violation (rt_sig ("%s|%s|descriptor-leak", rs, route_class [route]), "%d descriptors opened by the library are still open", o.lib_fds_after) ;
		}
	return oh ;
}

static void read_case (const Fmt *f, int ch, long N, int variant)
{	unsigned char *bytes ; sf_count_t len ; char rs [64] ; uint64_t oh ;
	snprintf (rs, sizeof (rs), "read|%s%s", major_name (f->format), N == 0 ? "|N0" : "") ;
	build_file (f, ch, N, 1, &bytes, &len) ;
	if (! bytes) { vl_end (0, 0) ; return ; }
	/* malformed variants: 1 truncated to half, 2 a header byte flipped, 3 empty */
	if (variant == 1) len = len / 2 ;
	if (variant == 2 && len > 9) bytes [8] ^= 0x5A ;
	if (variant == 3) len = 0 ;
	oh = compare_routes (f, ch, bytes, len, variant, rs, 0) ;
	free (bytes) ;
	vl_end (1, oh) ;
}

/* files that carry everything a container can carry (all metadata kinds and custom chunks in front of and behind the audio, written by
** the library; and the hand-built ones with the chunk types it only reads): the seeds of the hostile-input checks, through every route */
static void seed_case (const Seed *s)
{	MemDev t ; SF_INFO ri ; SNDFILE *sf ; Fmt fake ; const Fmt *f = NULL ; char rs [64] ; uint64_t oh ;
	md_init (&t) ; md_set (&t, s->data, s->len) ; memset (&ri, 0, sizeof (ri)) ; sf = md_open (&t, SFM_READ, &ri) ;
	if (! sf) { md_free (&t) ; vl_note ("seed does not open") ; vl_end (0, 0) ; return ; }
	INLIB (sf_close (sf)) ; md_free (&t) ;
	for (int fi = 0 ; fi < fmt_count && ! f ; fi++)
		if ((fmt_list [fi].format & (SF_FORMAT_TYPEMASK | SF_FORMAT_SUBMASK)) == (ri.format & (SF_FORMAT_TYPEMASK | SF_FORMAT_SUBMASK)) && (fmt_list [fi].format & SF_FORMAT_ENDMASK) == SF_ENDIAN_FILE) f = &fmt_list [fi] ;
	if (! f) { memset (&fake, 0, sizeof (fake)) ; fake.format = ri.format ; snprintf (fake.name, sizeof (fake.name), "seed") ; f = &fake ; }
	else if (! strncmp (s->name, "crafted:", 8)) { fake = *f ; fake.gran = 0 ; f = &fake ; }	/* e.g. an ID3 tag in front of the RIFF header: no pipe claim for those */
	snprintf (rs, sizeof (rs), "read|%s|seed", s->fam) ;
	oh = compare_routes (f, ri.channels, s->data, s->len, 0, rs, 1) ;
	vl_end (1, oh) ;
}

/* ---- write equivalence ---- */

static void mask_names (const Fmt *f, unsigned char *b, sf_count_t len)
{	if ((f->format & SF_FORMAT_TYPEMASK) == SF_FORMAT_MPC2K && len > 19) memset (b + 2, ' ', 17) ;
}

static int c14_rich ;	/* the write calls come with metadata in front of and behind the audio and a header update in the middle */

static int do_writes (SNDFILE *sf, int ch, long N, int rdwr)
{	short buf [64] ; long done = 0 ; int ok = 1 ;
	if (c14_rich)
	{	SF_CHUNK_INFO ci ; char d [12] = "chunkdata.." ;
		INLIB (sf_set_string (sf, SF_STR_TITLE, "route test title")) ; INLIB (sf_set_string (sf, SF_STR_COMMENT, "early comment")) ;
		memset (&ci, 0, sizeof (ci)) ; snprintf (ci.id, sizeof (ci.id), "ck00") ; ci.id_size = 4 ; ci.datalen = 11 ; ci.data = d ; INLIB (sf_set_chunk (sf, &ci)) ;
		}
	while (done < N)
	{	long k = N - done > 16 ? 16 : N - done ;
		for (long i = 0 ; i < k * ch ; i++) buf [i] = (short) ((((done * ch + i) * 41) % 1999 - 999) * 16) ;
		ok &= vl_write (sf, T_SHORT, 1, buf, k) == k ; done += k ;
		if (c14_rich && done == k) INLIB (sf_command (sf, SFC_UPDATE_HEADER_NOW, NULL, 0)) ;
		}
	if (c14_rich) { INLIB (sf_set_string (sf, SF_STR_COMMENT, "a comment set behind the audio")) ; INLIB (sf_set_string (sf, SF_STR_ARTIST, "late artist")) ; }
	if (rdwr)
	{	sf_count_t r ; INLIB (r = sf_seek (sf, 1, SEEK_SET | SFM_READ)) ; ok &= (r == 1) ; ok &= vl_read (sf, T_SHORT, 1, buf, 2) == 2 ;
		INLIB (r = sf_seek (sf, 2, SEEK_SET | SFM_WRITE)) ; for (int i = 0 ; i < 3 * ch ; i++) buf [i] = (short) (1000 + i) ; ok &= vl_write (sf, T_SHORT, 1, buf, 3) == 3 ;
		}
	return ok ;
}

static void write_case (const Fmt *f, int ch, long N, int mode)
{	unsigned char *ref = NULL ; sf_count_t reflen = 0 ; char rs [64] ; int rdwr = mode == SFM_RDWR, ref_ok = 1 ; uint64_t oh = VL_H0 ;
	snprintf (rs, sizeof (rs), "%s|%s", rdwr ? "rdwr" : c14_rich ? "write-rich" : "write", major_name (f->format)) ;
	for (int route = R_VIO ; route <= R_EMBED44 ; route++)
	{	SF_INFO info ; SNDFILE *sf = NULL ; int fd = -1, rc = 0, ok = 0 ; char path [460] = "" ; unsigned char *got = NULL ; sf_count_t gotlen = 0 ; int is_embed = route >= R_EMBED1 ;
		if (route == R_EMBED1 && (rdwr || (f->format & SF_FORMAT_TYPEMASK) == SF_FORMAT_RAW)) continue ;
		if (route == R_EMBED44) { if (rdwr) continue ; }
		rt_info (&info, f, ch, fmt_default_rate (f)) ; sio_reset_fds () ;
		switch (route)
		{	case R_VIO : md_reset (&dev) ; sf = md_open (&dev, mode, &info) ; break ;
			case R_PATH : path_for (path, sizeof (path), f, "w") ; cleanup_path (path) ; INLIB (sf = sf_open (path, mode, &info)) ; break ;
			case R_FD_KEEP : case R_FD_CLOSE :
				fd = sio_memfd ("c14w") ; sio_track_close_of (fd) ; INLIB (sf = sf_open_fd (fd, mode, &info, route == R_FD_CLOSE)) ; break ;
			case R_EMBED1 : case R_EMBED44 :
				fd = sio_memfd ("c14we") ; { static const char junk [64] = "some other data in front of the embedded sound file ...........!" ; write_all (fd, junk, embed_off [route]) ; }
				sio_track_close_of (fd) ; INLIB (sf = sf_open_fd (fd, mode, &info, SF_FALSE)) ; break ;
			}
		if (route == R_VIO && ! sf) { vl_note ("not writable in this mode") ; vl_end (0, 0) ; return ; }
		if (is_embed && ! embeddable (f))
		{	int e ; INLIB (e = sf_error (NULL)) ;
			if (sf || e == 0) vl_violation (rt_sig ("%s|%s|non-embeddable-accepted", rs, route_class [route]), "write-open at a non-zero offset accepted for a container without embedding support") ;
			if (sf) INLIB (sf_close (sf)) ;
			if (fd >= 0 && sio_fd_is_open (fd)) sio_real_close (fd) ;
			continue ;
			}
		if (! sf)
		{	vl_violation (rt_sig ("%s|%s|open-outcome", rs, route_class [route]), "%s open failed (%s) although virtual I/O succeeded", route_name [route], sf_strerror (NULL)) ;
			if (fd >= 0 && sio_fd_is_open (fd)) sio_real_close (fd) ;
			continue ;
			}
		ok = do_writes (sf, ch, N, rdwr) ;
		INLIB (rc = sf_close (sf)) ;
		if (route == R_VIO) ref_ok = ok ;
		else if (ok != ref_ok) vl_violation (rt_sig ("%s|%s|calls-outcome", rs, route_class [route]), "the write/seek/read calls %s through %s but %s through virtual I/O", ok ? "succeeded" : "failed", route_name [route], ref_ok ? "succeeded" : "failed") ;
		if (rc) vl_violation (rt_sig ("%s|%s|close-nonzero", rs, route_class [route]), "sf_close returned %d", rc) ;
		/* collect the bytes */
		if (route == R_VIO) { gotlen = dev.len ; got = malloc (gotlen + 1) ; memcpy (got, dev.data, gotlen) ; }
		else if (route == R_PATH)
		{	int rfd = sio_real_open (path, O_RDONLY, 0) ; struct stat st ; if (rfd >= 0 && stat (path, &st) == 0) { gotlen = st.st_size ; got = malloc (gotlen + 1) ; if (sio_real_read (rfd, got, gotlen) != gotlen) gotlen = -1 ; } if (rfd >= 0) sio_real_close (rfd) ; }
		else if (route == R_FD_CLOSE)
		{	if (sio_fd_is_open (fd)) vl_violation (rt_sig ("%s|close_desc-not-closed", rs), "descriptor still open after sf_close although close_desc was true") ;
			got = NULL ; gotlen = -2 ;		/* content no longer reachable: covered by fd-keep */
			}
		else
		{	long end ; if (! sio_fd_is_open (fd)) { vl_violation (rt_sig ("%s|%s|descriptor-closed", rs, route_class [route]), "sf_close closed a descriptor passed with close_desc = 0") ; continue ; }
			end = sio_real_lseek (fd, 0, SEEK_END) ; gotlen = end - embed_off [route] ; got = malloc (gotlen + 1) ; sio_real_lseek (fd, embed_off [route], SEEK_SET) ;
			if (sio_real_read (fd, got, gotlen) != gotlen) gotlen = -1 ;
			}
		if (sio_lib_fds_open () != 0) vl_violation (rt_sig ("%s|%s|descriptor-leak", rs, route_class [route]), "%ld library descriptors still open after close", sio_lib_fds_open ()) ;
		if (fd >= 0 && sio_fd_is_open (fd)) sio_real_close (fd) ;
		if (path [0]) cleanup_path (path) ;
		if (got) mask_names (f, got, gotlen) ;
		if (route == R_VIO) { ref = got ; reflen = gotlen ; oh = vl_hash (ref, reflen, oh) ; continue ; }
		if (gotlen == -2) continue ;
		if ((f->format & SF_FORMAT_TYPEMASK) == SF_FORMAT_SVX)
		{	/* the NAME chunk holds the file name (variable length): compare what the files decode to */
			Obs a, b ; observe_read (R_VIO, f, ch, ref, reflen, &a) ; observe_read (R_VIO, f, ch, got, gotlen, &b) ;
			if (! a.opened || ! b.opened || ! info_equal (&a.info, &b.info, 0) || a.samples [0] != b.samples [0]) vl_violation (rt_sig ("%s|%s|content", rs, route_class [route]), "SVX written through %s decodes differently", route_name [route]) ;
			}
		else if (gotlen != reflen || memcmp (got, ref, reflen) != 0)
		{	sf_count_t k = 0 ; while (k < gotlen && k < reflen && got [k] == ref [k]) k ++ ;
			vl_violation (rt_sig ("%s|%s|bytes-differ", rs, route_class [route]), "file written through %s differs from virtual I/O: %lld vs %lld bytes, first difference at %lld", route_name [route], (long long) gotlen, (long long) reflen, (long long) k) ;
			}
		free (got) ;
		vl_count_transitions (1) ;
		}
	free (ref) ;
	vl_end (1, oh) ;
}

/* SD2 lives on the path route only (resource fork): a plain round trip there */
static void sd2_case (const Fmt *f, int ch)
{	SF_INFO info ; SNDFILE *sf ; char path [460] ; short w [40 * 2], r [40 * 2] ; int rc ;
	for (int i = 0 ; i < 40 * ch ; i++) w [i] = (short) (i * 321 - 4000) ;
	path_for (path, sizeof (path), f, "sd2") ; cleanup_path (path) ; sio_reset_fds () ;
	rt_info (&info, f, ch, 44100) ; INLIB (sf = sf_open (path, SFM_WRITE, &info)) ;
	if (! sf) { vl_violation (rt_sig ("sd2|%s|open-failed", rt_fam (f)), "%s", sf_strerror (NULL)) ; vl_end (1, 0) ; return ; }
	if (vl_write (sf, T_SHORT, 1, w, 40) != 40) vl_violation (rt_sig ("sd2|%s|write", rt_fam (f)), "write failed") ;
	INLIB (rc = sf_close (sf)) ; if (rc) vl_violation (rt_sig ("sd2|%s|close", rt_fam (f)), "close %d", rc) ;
	memset (&info, 0, sizeof (info)) ; INLIB (sf = sf_open (path, SFM_READ, &info)) ;
	if (! sf) vl_violation (rt_sig ("sd2|%s|reopen-failed", rt_fam (f)), "%s", sf_strerror (NULL)) ;
	else
	{	int w8 = (f->format & SF_FORMAT_SUBMASK) == SF_FORMAT_PCM_S8 ;
		if (info.frames != 40 || info.channels != ch || info.samplerate != 44100 || (info.format & SF_FORMAT_SUBMASK) != (f->format & SF_FORMAT_SUBMASK)) vl_violation (rt_sig ("sd2|%s|info", rt_fam (f)), "frames %lld ch %d rate %d format 0x%x", (long long) info.frames, info.channels, info.samplerate, info.format) ;
		if (vl_read (sf, T_SHORT, 1, r, 40) != 40) vl_violation (rt_sig ("sd2|%s|read", rt_fam (f)), "short read") ;
		else for (int i = 0 ; i < 40 * ch ; i++) if (r [i] != (w8 ? (short) (w [i] & 0xFF00) : w [i])) { vl_violation (rt_sig ("sd2|%s|samples", rt_fam (f)), "item %d: %d != %d", i, r [i], w [i]) ; break ; }
		INLIB (sf_close (sf)) ;
		}
	if (sio_lib_fds_open () != 0) vl_violation (rt_sig ("sd2|%s|descriptor-leak", rt_fam (f)), "%ld descriptors (data or resource fork) left open", sio_lib_fds_open ()) ;
	cleanup_path (path) ;
	vl_end (1, 1) ;
}

void harness_run (void)
{	const char *t = getenv ("TMPDIR") ;
	snprintf (tmpdir, sizeof (tmpdir), "%s", t && t [0] ? t : "/tmp") ;
	fmt_build () ; md_init (&dev) ;
	hc_build_seeds () ;
	for (int si = 0 ; si < hc_nseeds ; si++)
	{	const Seed *s = &hc_seeds [si] ;
		if (s->raw_format || (strncmp (s->name, "rich:", 5) && strncmp (s->name, "crafted:", 8))) continue ;	/* the plain ones are the read cases below */
		if (vl_case ("C14 seed name=%s", s->name)) { vl_root_count ("seed") ; seed_case (s) ; }
		}
	for (int fi = 0 ; fi < fmt_count ; fi++)
	{	const Fmt *f = &fmt_list [fi] ;
		if ((f->format & SF_FORMAT_ENDMASK) == SF_ENDIAN_CPU) continue ;
		if (! vl_opts.thorough && (f->format & SF_FORMAT_ENDMASK) == SF_ENDIAN_LITTLE) continue ;
		for (int ch = 1 ; ch <= 2 ; ch++)
		{	int rate = fmt_default_rate (f), B ;
			if (! rt_accepts (f, ch, rate)) continue ;
			if (f->needs_path)
			{	if (vl_case ("C14 sd2 fmt=%s ch=%d", f->name, ch)) { vl_root_count ("sd2") ; sd2_case (f, ch) ; }
				continue ;
				}
			B = fmt_block (f, ch, rate) ;
			for (int ni = 0 ; ni < 2 ; ni++)
			{	long N = ni == 0 ? 0 : (B > 1 ? B + 3 : 21) ;
				for (int variant = 0 ; variant < (ni ? 4 : 1) ; variant++)
					if (vl_case ("C14 read fmt=%s ch=%d N=%ld variant=%d", f->name, ch, N, variant)) { vl_root_count (f->name) ; read_case (f, ch, N, variant) ; }
				if (vl_case ("C14 write fmt=%s ch=%d N=%ld", f->name, ch, N)) { vl_root_count (f->name) ; write_case (f, ch, N, SFM_WRITE) ; }
				if (ni && f->gran && vl_case ("C14 rdwr fmt=%s ch=%d N=%ld", f->name, ch, N)) { vl_root_count (f->name) ; write_case (f, ch, N, SFM_RDWR) ; }
				if (ni && vl_case ("C14 write-rich fmt=%s ch=%d N=%ld", f->name, ch, N)) { vl_root_count (f->name) ; c14_rich = 1 ; write_case (f, ch, N, SFM_WRITE) ; c14_rich = 0 ; }
				}
			}
		}
}
