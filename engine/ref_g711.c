/* ref_g711.c - ITU-T G.711 mu-law / A-law written from the Recommendation's segment definition
** (Tables 1a/1b, 2a/2b): sign-magnitude, 8 segments ("chords") of 16 steps.  Linear values are on the
** 16-bit scale: the mu-law 14-bit magnitude is |s| >> 2, the A-law 13-bit magnitude is |s| >> 3.
*/
#include "ref.h"

/* mu-law: code bits after inversion: S EEE MMMM ; magnitude = ((M << 1) + 33) << E) - 33 on the 14-bit scale */
int ref_ulaw_decode (unsigned code)
{	unsigned c = (~code) & 0xFF ;
	int sign = c & 0x80, e = (c >> 4) & 7, m = c & 0x0F ;
	int mag14 = (((m << 1) + 33) << e) - 33 ;
	int v = mag14 << 2 ;
	return sign ? -v : v ;
}

unsigned ref_ulaw_encode (int s16)
{	int neg = s16 < 0 ;
	int mag = (neg ? -s16 : s16) >> 2 ;		/* 14-bit magnitude */
	int e, m ; unsigned code ;
	if (mag > 8158) mag = 8158 ;			/* largest decision value of the Recommendation */
	mag += 33 ;
	for (e = 0 ; e < 7 ; e++)
		if (mag < (64 << e)) break ;
	m = (mag >> (e + 1)) & 0x0F ;
	code = (unsigned) ((e << 4) | m) ;
	if (neg) code |= 0x80 ;
	return (~code) & 0xFF ;
}

/* A-law: code ^ 0x55 = S EEE MMMM with S = 1 for positive. 13-bit magnitude:
** E = 0 : (M << 1) + 1 ; E >= 1 : ((M << 1) + 33) << (E - 1) */
int ref_alaw_decode (unsigned code)
{	unsigned c = (code ^ 0x55) & 0xFF ;
	int pos = c & 0x80, e = (c >> 4) & 7, m = c & 0x0F ;
	int mag13 = (e == 0) ? (m << 1) + 1 : (((m << 1) + 33) << (e - 1)) ;
	int v = mag13 << 3 ;
	return pos ? v : -v ;
}

unsigned ref_alaw_encode (int s16)
{	int neg = s16 < 0 ;
	int mag = (neg ? -s16 : s16) >> 3 ;		/* 13-bit magnitude */
	int e, m ; unsigned code ;
	if (mag > 4095) mag = 4095 ;
	if (mag < 32) { e = 0 ; m = mag >> 1 ; }
	else
	{	for (e = 1 ; e < 7 ; e++)
			if (mag < (32 << e)) break ;
		m = (mag >> e) & 0x0F ;
		}
	code = (unsigned) ((e << 4) | m) ;
	if (! neg) code |= 0x80 ;
	return (code ^ 0x55) & 0xFF ;
}
