#!/usr/bin/env python3
"""Build libsndfile variants from /repo's current working tree and the harness binaries.

  build.py lib <variant>            -> /verif/build/<variant>/libsndfile.a
  build.py harness <variant> <name> -> /verif/build/<variant>/h/<name>

Variants: asan, fast, fast-sse2.  Everything is incremental (ninja / mtime) and serialised by
an flock per variant so concurrently started checks share one build.
"""
import fcntl, os, subprocess, sys, glob, hashlib

VERIF = os.path.dirname(os.path.dirname(os.path.abspath(__file__)))
REPO = os.environ.get("VERIF_REPO", "/repo")
BUILD = os.environ.get("VERIF_BUILD", os.path.join(VERIF, "build"))
GUARD = "LIBSNDFILE_VERIF"

VARIANTS = {
    "asan": "-O1 -g -fsanitize=address -fno-omit-frame-pointer -fno-common -D%s -Wno-error" % GUARD,
    "fast": "-O2 -g -D%s -Wno-error" % GUARD,
    "fast-sse2": "-O2 -g -D%s -DUSE_SSE2 -msse2 -Wno-error" % GUARD,
}

WRAPS = ["time", "gettimeofday", "open", "close", "read", "write", "lseek", "fstat",
         "ftruncate", "fsync", "malloc", "calloc", "realloc", "free", "fopen", "fclose", "fwrite", "fread"]

COMMON_SRC = ["vlib.c", "memdev.c", "sysio.c", "peek.c", "fmt.c", "gen.c", "rt_common.c"]


def run(cmd, **kw):
    r = subprocess.run(cmd, stdout=subprocess.PIPE, stderr=subprocess.STDOUT, text=True, **kw)
    if r.returncode != 0:
        sys.stderr.write("BUILD FAILED: %s\n%s\n" % (" ".join(cmd), r.stdout[-6000:]))
        sys.exit(3)
    return r.stdout


class Lock:
    def __init__(self, path):
        os.makedirs(os.path.dirname(path), exist_ok=True)
        self.f = open(path, "w")

    def __enter__(self):
        fcntl.flock(self.f, fcntl.LOCK_EX)

    def __exit__(self, *a):
        fcntl.flock(self.f, fcntl.LOCK_UN)
        self.f.close()


def build_lib(variant):
    d = os.path.join(BUILD, variant)
    os.makedirs(d, exist_ok=True)
    with Lock(os.path.join(BUILD, variant + ".lock")):
        stamp = os.path.join(d, "repo_path")
        if os.path.exists(stamp) and open(stamp).read() != REPO:
            run(["rm", "-rf", os.path.join(d, "CMakeCache.txt"), os.path.join(d, "CMakeFiles")])
        if not os.path.exists(os.path.join(d, "build.ninja")):
            run(["cmake", "-G", "Ninja", "-S", REPO, "-B", d,
                 "-DCMAKE_BUILD_TYPE=None", "-DCMAKE_C_FLAGS=" + VARIANTS[variant],
                 "-DBUILD_PROGRAMS=OFF", "-DBUILD_EXAMPLES=OFF", "-DBUILD_TESTING=OFF",
                 "-DBUILD_REGTEST=OFF", "-DENABLE_EXTERNAL_LIBS=OFF", "-DENABLE_MPEG=OFF",
                 "-DENABLE_CPACK=OFF", "-DENABLE_PACKAGE_CONFIG=OFF", "-DBUILD_SHARED_LIBS=OFF",
                 "-DINSTALL_MANPAGES=OFF", "-DINSTALL_PKGCONFIG_MODULE=OFF"])
            open(stamp, "w").write(REPO)
        run(["ninja", "-C", d, "sndfile"])
    return os.path.join(d, "libsndfile.a")


def newer(target, deps):
    if not os.path.exists(target):
        return True
    t = os.path.getmtime(target)
    return any(os.path.getmtime(x) > t for x in deps)


def build_harness(variant, name):
    lib = build_lib(variant)
    d = os.path.join(BUILD, variant)
    hd = os.path.join(d, "h")
    os.makedirs(hd, exist_ok=True)
    eng = os.path.join(VERIF, "engine")
    cflags = VARIANTS[variant].split() + ["-std=gnu11", "-Wall", "-Wno-unused-function",
              "-I", eng, "-I", os.path.join(d, "src"), "-I", os.path.join(REPO, "src"),
              "-I", os.path.join(REPO, "include"), "-I", os.path.join(d, "include"), "-I", d,
              "-DHAVE_CONFIG_H", "-DVERIF_VARIANT=\"%s\"" % variant]
    headers = glob.glob(os.path.join(eng, "*.h")) + [os.path.join(REPO, "src", "common.h"),
                                                      os.path.join(REPO, "include", "sndfile.h")]
    cfg = os.path.join(d, "src", "config.h")
    if os.path.exists(cfg):
        headers.append(cfg)
    extra = {
        "h_conv": ["ref_conv.c", "ref_g711.c", "ref_adpcm.c", "h_c20.c"],
        "h_rdwr": ["ref_g711.c"],
        "h_meta": ["h_chunks.c"],
        "h_hostile": ["hostile_core.c"],
        "h_fault": ["hostile_core.c"],
        "h_route": ["hostile_core.c"],
    }.get(name, [])
    if name == "h_cmd":
        # the command list is taken from the tree's own public header every time
        import re
        txt = open(os.path.join(REPO, "include", "sndfile.h")).read()
        cmds = re.findall(r"(SFC_[A-Z0-9_]+)\s*=\s*(0x[0-9A-Fa-f]+)", txt)
        gen = os.path.join(hd, "sfc_list.h")
        body = "static const struct { const char *name ; int id ; } sfc_list [] = {\n" + "".join('\t{ "%s", %s },\n' % c for c in cmds) + "\t{ NULL, 0 } } ;\n"
        if not os.path.exists(gen) or open(gen).read() != body:
            open(gen, "w").write(body)
        cflags += ["-I", hd]
        headers.append(gen)
    if name == "h_hostile":
        # the containers and encodings the public header names (SF_FORMAT_DWVW_N etc. are readable but not in the writable lists)
        import re
        txt = open(os.path.join(REPO, "include", "sndfile.h")).read()
        vals = [(n, int(v, 16)) for n, v in re.findall(r"(SF_FORMAT_[A-Z0-9_]+)\s*=\s*(0x[0-9A-Fa-f]+)", txt)]
        majors = [(n, v) for n, v in vals if 0x10000 <= v < 0x0FFF0000 and n not in ("SF_FORMAT_TYPEMASK",)]
        subs = [(n, v) for n, v in vals if 0 < v < 0x10000 and n not in ("SF_FORMAT_SUBMASK",)]
        gen = os.path.join(hd, "sff_list.h")
        body = ("static const int sff_majors [] = { " + ", ".join("0x%x /* %s */" % (v, n) for n, v in majors) + ", 0 } ;\n" +
                "static const int sff_subtypes [] = { " + ", ".join("0x%x /* %s */" % (v, n) for n, v in subs) + ", 0 } ;\n")
        if not os.path.exists(gen) or open(gen).read() != body:
            open(gen, "w").write(body)
        cflags += ["-I", hd]
        headers.append(gen)
    srcs = COMMON_SRC + extra + [name + ".c"]
    objs = []
    with Lock(os.path.join(BUILD, variant + ".hlock")):
        procs = []
        for s in srcs:
            src = os.path.join(eng, s)
            obj = os.path.join(hd, s[:-2] + ".o")
            objs.append(obj)
            if newer(obj, [src] + headers):
                procs.append((src, subprocess.Popen(["gcc"] + cflags + ["-c", src, "-o", obj],
                                                    stdout=subprocess.PIPE, stderr=subprocess.STDOUT, text=True)))
        for src, p in procs:
            out = p.communicate()[0]
            if p.returncode != 0:
                sys.stderr.write("BUILD FAILED: %s\n%s\n" % (src, out[-6000:]))
                sys.exit(3)
        exe = os.path.join(hd, name)
        if newer(exe, objs + [lib]):
            ld = ["gcc"] + [f for f in VARIANTS[variant].split() if f.startswith("-fsan") or f == "-g"]
            ld += ["-o", exe] + objs + [lib, "-lm"]
            ld += ["-Wl," + ",".join("--wrap=" + w for w in WRAPS)]
            run(ld)
    return exe


if __name__ == "__main__":
    if sys.argv[1] == "lib":
        print(build_lib(sys.argv[2]))
    elif sys.argv[1] == "harness":
        print(build_harness(sys.argv[2], sys.argv[3]))
