/* h_hostile.c - C03: arbitrary input bytes never cause memory errors, hangs or insane info.
**
** Bounded exhaustive enumeration of input byte strings derived from seeds (one valid file per catalogue
** format, metadata-rich library-written files, hand-built files carrying every chunk type the parsers
** know) by complete mutation families, each mutant opened through virtual I/O (and, for the families
** listed in props.py, through a real non-seekable pipe and a descriptor) and driven by a call script
** (thorough: all ordered pairs of script operations on fresh handles).
** One vl_case per execution, so a crash or hang is attributed to and replayable from exactly one spec.
*/
#define _GNU_SOURCE
#include "vlib.h"
#include "rt_common.h"
#include "hostile_core.h"
#include <unistd.h>
#include <fcntl.h>
#include <errno.h>
#include <time.h>

const char *harness_name = "h_hostile" ;

static MemDev dev ;

/* ---------------------------------------------------------------- the call script */

enum { R_VIO = HR_VIO, R_PIPE = HR_PIPE, R_FD = HR_FD, R_NROUTES = HR_NROUTES } ;
static const char *route_names [R_NROUTES] = { "vio", "pipe", "fd" } ;

enum { O_READF_SHORT = 0, O_READ_INT_ODD, O_READF_FLOAT_BIG, O_READ_DOUBLE, O_READ_RAW, O_SEEK_SET0, O_SEEK_CUR1, O_SEEK_END_1, O_SEEK_BEYOND, O_SEEK_MID, O_CALC, O_CHUNKS, O_GETTERS, O_NOPS } ;
static const char *op_names [O_NOPS] = { "readf_short3", "read_int-odd-items", "readf_float-big", "read_double1", "read_raw", "seek-set0", "seek-cur+1", "seek-end-1", "seek-beyond", "seek-mid", "calc-max", "iterate-chunks", "getters" } ;

static char SIGBASE [64] ;
#define V03(sym, ...) vl_violation (rt_sig ("%s|" sym, SIGBASE), __VA_ARGS__)

#include "sff_list.h"	/* generated from the tree's include/sndfile.h: every SF_FORMAT_* container and encoding constant */
static int known_major (int fmt)
{	for (int k = 0 ; sff_majors [k] ; k++) if (sff_majors [k] == (fmt & SF_FORMAT_TYPEMASK)) return 1 ;
	return 0 ;
}
static int known_subtype (int fmt)
{	for (int k = 0 ; sff_subtypes [k] ; k++) if (sff_subtypes [k] == (fmt & SF_FORMAT_SUBMASK)) return 1 ;
	return 0 ;
}

static int check_info (const SF_INFO *info)
{	int ok = 1 ;
	if (info->channels < 1 || info->channels > 1024) { V03 ("insane-info:channels", "channels = %d", info->channels) ; ok = 0 ; }
	if (info->samplerate < 1) { V03 ("insane-info:samplerate", "samplerate = %d", info->samplerate) ; ok = 0 ; }
	if (info->frames < 0) { V03 ("insane-info:frames", "frames = %lld", (long long) info->frames) ; ok = 0 ; }
	if (info->sections < 1) { V03 ("insane-info:sections", "sections = %d", info->sections) ; ok = 0 ; }
	if (! known_major (info->format) || ! known_subtype (info->format)) { V03 ("insane-info:format", "format = 0x%08x does not name a known container and encoding", info->format) ; ok = 0 ; }
	return ok ;
}

static uint64_t tr ;	/* transcript */
#define TR(v) (tr = vl_hash_u64 ((uint64_t) (v), tr))

static void guarded_read (SNDFILE *sf, int type, int frames_variant, sf_count_t count, int ch)
{	GBuf g ; sf_count_t r, items = frames_variant ? count * ch : count ;
	gb_new (&g, 64, items * type_size [type], 64, 0x6B) ;
	r = vl_read (sf, type, frames_variant, gb_ptr (&g), count) ;
	if (gb_check (&g)) V03 ("write-outside-buffer:read", "guard bytes around the %s read buffer (%lld items) were modified", type_names [type], (long long) items) ;
	TR (r) ; gb_free (&g) ;
}

static void do_op (SNDFILE *sf, const SF_INFO *info, int op)
{	int ch = info->channels ; sf_count_t r ;
	switch (op)
	{	case O_READF_SHORT : guarded_read (sf, T_SHORT, 1, 3, ch) ; break ;
		case O_READ_INT_ODD : guarded_read (sf, T_INT, 0, 2 * ch + 1, ch) ; break ;
		case O_READF_FLOAT_BIG : guarded_read (sf, T_FLOAT, 1, ch > 64 ? 600 : 5000, ch) ; break ;
		case O_READ_DOUBLE : guarded_read (sf, T_DOUBLE, 0, ch, ch) ; break ;
		case O_READ_RAW :
			{	GBuf g ; gb_new (&g, 64, 4096, 64, 0x3C) ; INLIB (r = sf_read_raw (sf, gb_ptr (&g), 4096)) ;
				if (gb_check (&g)) V03 ("write-outside-buffer:read_raw", "guard bytes around the raw read buffer were modified") ;
				TR (r) ; gb_free (&g) ;
				}
			break ;
		case O_SEEK_SET0 : INLIB (r = sf_seek (sf, 0, SEEK_SET)) ; TR (r) ; break ;
		case O_SEEK_CUR1 : INLIB (r = sf_seek (sf, 1, SEEK_CUR)) ; TR (r) ; break ;
		case O_SEEK_END_1 : INLIB (r = sf_seek (sf, -1, SEEK_END)) ; TR (r) ; break ;
		case O_SEEK_BEYOND : INLIB (r = sf_seek (sf, info->frames + 1, SEEK_SET)) ; TR (r) ; INLIB (r = sf_seek (sf, -1, SEEK_SET)) ; TR (r) ; break ;
		case O_SEEK_MID : INLIB (r = sf_seek (sf, info->frames / 2, SEEK_SET)) ; TR (r) ; break ;
		case O_CALC :
			{	GBuf g ; double d = 0 ; int rc ;
				INLIB (rc = sf_command (sf, SFC_CALC_SIGNAL_MAX, &d, sizeof (d))) ; TR (rc) ;
				gb_new (&g, 64, sizeof (double) * ch, 64, 0x2D) ;
				INLIB (rc = sf_command (sf, SFC_CALC_NORM_MAX_ALL_CHANNELS, gb_ptr (&g), sizeof (double) * ch)) ; TR (rc) ;
				if (gb_check (&g)) V03 ("write-outside-buffer:calc", "guard bytes around the per-channel maxima were modified") ;
				INLIB (rc = sf_command (sf, SFC_GET_MAX_ALL_CHANNELS, gb_ptr (&g), sizeof (double) * ch)) ; TR (rc) ;
				if (gb_check (&g)) V03 ("write-outside-buffer:peaks", "guard bytes around the per-channel peaks were modified") ;
				gb_free (&g) ;
				}
			break ;
		case O_CHUNKS :
			{	SF_CHUNK_ITERATOR *it ; int n = 0 ;
				INLIB (it = sf_get_chunk_iterator (sf, NULL)) ;
				while (it && n ++ < 64)
				{	SF_CHUNK_INFO ci ; int rc ; memset (&ci, 0, sizeof (ci)) ;
					INLIB (rc = sf_get_chunk_size (it, &ci)) ; TR (rc) ; TR (ci.datalen) ;
					if (rc == 0 && ci.datalen > 0 && ci.datalen <= (1u << 20))
					{	GBuf g ; gb_new (&g, 64, ci.datalen, 64, 0x5C) ; ci.data = gb_ptr (&g) ;
						INLIB (rc = sf_get_chunk_data (it, &ci)) ; TR (rc) ;
						if (gb_check (&g)) V03 ("write-outside-buffer:chunk", "guard bytes around the chunk data buffer (%u bytes) were modified", ci.datalen) ;
						gb_free (&g) ;
						}
					INLIB (it = sf_next_chunk_iterator (it)) ;
					}
				TR (n) ;
				}
			break ;
		default :
			{	static SF_BROADCAST_INFO b ; static SF_CART_INFO c ; static SF_CUES q ; SF_INSTRUMENT in ; SF_LOOP_INFO li ; SF_EMBED_FILE_INFO ei ; SF_INFO cur ; GBuf g ; int rc ; uint32_t cc = 0 ; double d ;
				for (int id = SF_STR_FIRST ; id <= SF_STR_LAST ; id++) { const char *s ; INLIB (s = sf_get_string (sf, id)) ; if (s) TR (vl_hash (s, strnlen (s, 70000), 3)) ; }
				INLIB (rc = sf_command (sf, SFC_GET_BROADCAST_INFO, &b, sizeof (b))) ; TR (rc) ;
				INLIB (rc = sf_command (sf, SFC_GET_CART_INFO, &c, sizeof (c))) ; TR (rc) ;
				INLIB (rc = sf_command (sf, SFC_GET_CUE_COUNT, &cc, sizeof (cc))) ; TR (cc) ;
				INLIB (rc = sf_command (sf, SFC_GET_CUE, &q, sizeof (q))) ; TR (rc) ;
				INLIB (rc = sf_command (sf, SFC_GET_INSTRUMENT, &in, sizeof (in))) ; TR (rc) ;
				INLIB (rc = sf_command (sf, SFC_GET_LOOP_INFO, &li, sizeof (li))) ; TR (rc) ;
				INLIB (rc = sf_command (sf, SFC_GET_EMBED_FILE_INFO, &ei, sizeof (ei))) ; TR (rc) ;
				INLIB (rc = sf_command (sf, SFC_GET_CURRENT_SF_INFO, &cur, sizeof (cur))) ; TR (rc) ;
				INLIB (rc = sf_command (sf, SFC_GET_SIGNAL_MAX, &d, sizeof (d))) ; TR (rc) ;
				gb_new (&g, 64, sizeof (int) * ch, 64, 0x4E) ;
				INLIB (rc = sf_command (sf, SFC_GET_CHANNEL_MAP_INFO, gb_ptr (&g), sizeof (int) * ch)) ; TR (rc) ;
				if (gb_check (&g)) V03 ("write-outside-buffer:chanmap", "guard bytes around the channel map buffer were modified") ;
				gb_free (&g) ;
				gb_new (&g, 64, 600, 64, 0x4F) ;
				INLIB (rc = sf_command (sf, SFC_GET_LOG_INFO, gb_ptr (&g), 600)) ; TR (rc) ;
				if (gb_check (&g)) V03 ("write-outside-buffer:log", "guard bytes around the log buffer were modified") ;
				gb_free (&g) ;
				INLIB (rc = sf_command (sf, SFC_RAW_DATA_NEEDS_ENDSWAP, NULL, 0)) ; TR (rc) ;
				INLIB (rc = sf_command (sf, SFC_GET_BITRATE_MODE, NULL, 0)) ; TR (rc) ;
				INLIB (rc = sf_current_byterate (sf)) ; TR (rc) ;
				}
			break ;
		}
}

/* ---------------------------------------------------------------- one execution */

static long pipe_sys_budget ;
static int sys_budget_hook (int kind, int fd, sf_count_t requested, sf_count_t *answer, int *err, void *user)
{	(void) kind ; (void) fd ; (void) requested ; (void) answer ; (void) err ; (void) user ;
	if (pipe_sys_budget > 0 && sio_ncalls > pipe_sys_budget) vl_budget_exceeded ("sys") ;
	return 0 ;
}
void vl_budget_exceeded (const char *what) ;

/* script: -1 = the full script, else op index a (and b if >= 0) */
static double cpu_s (void) { struct timespec t ; clock_gettime (CLOCK_PROCESS_CPUTIME_ID, &t) ; return t.tv_sec + t.tv_nsec * 1e-9 ; }

static uint64_t execute (const Seed *s, const unsigned char *img, sf_count_t len, int route, int a, int b)
{	SF_INFO info ; SNDFILE *sf = NULL ; int fds [2] = { -1, -1 }, rc ; double c0 = cpu_s () ;
	tr = VL_H0 ;
	memset (&info, 0, sizeof (info)) ;
	if (s->raw_format) { info.format = s->raw_format ; info.channels = s->raw_ch ; info.samplerate = s->raw_rate ; }
	if (route == R_VIO)
	{	md_set (&dev, img, len) ; dev.budget = 20000 + 64 * ((long) len + 60000) ; sf = md_open (&dev, SFM_READ, &info) ; }
	else
	{	pipe_sys_budget = 20000 + 64 * ((long) len + 60000) ;
		if (route == R_PIPE)
		{	if (len > 60000 || pipe (fds) != 0) return 0 ;
			if (len > 0 && sio_real_write (fds [1], img, len) != len) { sio_real_close (fds [0]) ; sio_real_close (fds [1]) ; return 0 ; }
			sio_real_close (fds [1]) ;
			}
		else
		{	fds [0] = sio_memfd ("hostile") ; if (fds [0] < 0) return 0 ;
			if (len > 0 && sio_real_write (fds [0], img, len) != len) { sio_real_close (fds [0]) ; return 0 ; }
			sio_real_lseek (fds [0], 0, SEEK_SET) ;
			}
		sio_set_fault (sys_budget_hook, NULL) ;
		INLIB (sf = sf_open_fd (fds [0], SFM_READ, &info, SF_FALSE)) ;
		}
	if (! sf)
	{	int e ; const char *msg ; INLIB (e = sf_error (NULL)) ; INLIB (msg = sf_strerror (NULL)) ;
		if (e == 0) V03 ("null-without-error", "the open returned NULL but sf_error (NULL) is 0") ;
		else if (! msg || ! msg [0]) V03 ("null-without-message", "the open returned NULL with error %d but an empty message", e) ;
		TR (0) ;
		}
	else
	{	TR (1) ; TR (info.channels) ; TR (info.frames) ; TR (info.format) ;
		if (check_info (&info))
		{	if (a < 0) for (int op = 0 ; op < O_NOPS ; op++) do_op (sf, &info, op) ;
			else { do_op (sf, &info, a) ; if (b >= 0) do_op (sf, &info, b) ; }
			}
		INLIB (rc = sf_close (sf)) ; TR (rc) ;
		}
	if (route != R_VIO) { sio_set_fault (NULL, NULL) ; sio_real_close (fds [0]) ; }
	vl_count_transitions (sf ? (a < 0 ? O_NOPS + 2 : b >= 0 ? 4 : 3) : 1) ; vl_count_states (1) ;
	/* processor time, not wall clock (independent of machine load): an execution on at most 64 KiB of input normally takes about a
	** millisecond; ten seconds means work proportional to a size the input only claims */
	if (cpu_s () - c0 > 10.0) V03 ("time-not-bounded-by-input", "%.1f s of processor time for %lld bytes of input", cpu_s () - c0, (long long) len) ;
	return tr ;
}

/* ---------------------------------------------------------------- one mutant: routes and scripts */

static unsigned char *work ; static sf_count_t work_cap ;

static void run_mutant (const Seed *s, const Mut *m, int routes_mask, int pairs)
{	char desc [200] ; int described = 0 ; sf_count_t len = -1 ;
	/* replaying one spec: do not format the millions of specs of the other seeds and families */
	if (vl_replaying ())
	{	static const Seed *last ; static int seed_matches ; char tag [96] ;
		if (last != s) { snprintf (tag, sizeof (tag), "seed=%s fam=", s->name) ; seed_matches = strstr (vl_opts.replay, tag) != NULL ; last = s ; }
		if (! seed_matches) return ;
		snprintf (tag, sizeof (tag), " fam=%s ", hc_family (m)) ; if (! strstr (vl_opts.replay, tag)) return ;
		}
	for (int route = 0 ; route < R_NROUTES ; route++)
	{	if (! (routes_mask & (1 << route))) continue ;
		if (! vl_peek ()) vl_skip (1) ;
		else
		{	if (! described) { hc_describe (m, desc, sizeof (desc)) ; described = 1 ; }
			if (vl_case ("C03 X seed=%s fam=%s %s route=%s script=full", s->name, hc_family (m), desc, route_names [route]))
			{	if (len < 0) { if (2 * s->len + 8192 > work_cap) { work_cap = 4 * s->len + 16384 ; work = realloc (work, work_cap) ; } len = hc_materialise (s, m, work) ; }
				vl_root_count (s->fam) ;
				snprintf (SIGBASE, sizeof (SIGBASE), "%s|%s|%s", s->fam, hc_family (m), route_names [route]) ;
				vl_end (1, execute (s, work, len, route, -1, -1)) ;
				}
			}
		if (route == R_VIO && pairs && vl_opts.thorough)
			/* every ordered pair of script operations on a fresh handle */
			for (int a = 0 ; a < O_NOPS ; a++)
				for (int b = 0 ; b < O_NOPS ; b++)
				{	if (! vl_peek ()) { vl_skip (1) ; continue ; }
					if (! described) { hc_describe (m, desc, sizeof (desc)) ; described = 1 ; }
					if (vl_case ("C03 X seed=%s fam=%s %s route=vio script=%s,%s", s->name, hc_family (m), desc, op_names [a], op_names [b]))
					{	if (len < 0) { if (2 * s->len + 8192 > work_cap) { work_cap = 4 * s->len + 16384 ; work = realloc (work, work_cap) ; } len = hc_materialise (s, m, work) ; }
						vl_root_count (s->fam) ;
						snprintf (SIGBASE, sizeof (SIGBASE), "%s|%s|vio", s->fam, hc_family (m)) ;
						vl_end (1, execute (s, work, len, R_VIO, a, b)) ;
						}
					}
		}
}

/* ---------------------------------------------------------------- driver */

void harness_run (void)
{	fmt_build () ; md_init (&dev) ;
	hc_build_seeds () ;
	for (int i = 0 ; i < hc_nseeds ; i++) hc_seed_families (&hc_seeds [i], run_mutant) ;
	hc_unconstrained (run_mutant) ;
}
