/* fmt.c - format catalogue.  The SET of formats comes from the library (enumeration commands +
** sf_format_check); what each format is SUPPOSED to do (block length, lossless types, sample-rate field,
** padding, ...) is the hand-written traits below, derived from the format specifications and docs/.
*/
#include "vlib.h"

Fmt *fmt_list ; int fmt_count ;

static const struct { int code ; const char *name ; } majors [] =
{	{ SF_FORMAT_WAV, "wav" }, { SF_FORMAT_AIFF, "aiff" }, { SF_FORMAT_AU, "au" }, { SF_FORMAT_RAW, "raw" },
	{ SF_FORMAT_PAF, "paf" }, { SF_FORMAT_SVX, "svx" }, { SF_FORMAT_NIST, "nist" }, { SF_FORMAT_VOC, "voc" },
	{ SF_FORMAT_IRCAM, "ircam" }, { SF_FORMAT_W64, "w64" }, { SF_FORMAT_MAT4, "mat4" }, { SF_FORMAT_MAT5, "mat5" },
	{ SF_FORMAT_PVF, "pvf" }, { SF_FORMAT_XI, "xi" }, { SF_FORMAT_HTK, "htk" }, { SF_FORMAT_SDS, "sds" },
	{ SF_FORMAT_AVR, "avr" }, { SF_FORMAT_WAVEX, "wavex" }, { SF_FORMAT_SD2, "sd2" }, { SF_FORMAT_FLAC, "flac" },
	{ SF_FORMAT_CAF, "caf" }, { SF_FORMAT_WVE, "wve" }, { SF_FORMAT_OGG, "ogg" }, { SF_FORMAT_MPC2K, "mpc2k" },
	{ SF_FORMAT_RF64, "rf64" }, { SF_FORMAT_MPEG, "mpeg" }, { 0, NULL }
} ;

static const struct { int code ; const char *name ; } subs [] =
{	{ SF_FORMAT_PCM_S8, "pcm_s8" }, { SF_FORMAT_PCM_16, "pcm_16" }, { SF_FORMAT_PCM_24, "pcm_24" }, { SF_FORMAT_PCM_32, "pcm_32" },
	{ SF_FORMAT_PCM_U8, "pcm_u8" }, { SF_FORMAT_FLOAT, "float" }, { SF_FORMAT_DOUBLE, "double" }, { SF_FORMAT_ULAW, "ulaw" },
	{ SF_FORMAT_ALAW, "alaw" }, { SF_FORMAT_IMA_ADPCM, "ima_adpcm" }, { SF_FORMAT_MS_ADPCM, "ms_adpcm" }, { SF_FORMAT_GSM610, "gsm610" },
	{ SF_FORMAT_VOX_ADPCM, "vox_adpcm" }, { SF_FORMAT_NMS_ADPCM_16, "nms_16" }, { SF_FORMAT_NMS_ADPCM_24, "nms_24" },
	{ SF_FORMAT_NMS_ADPCM_32, "nms_32" }, { SF_FORMAT_G721_32, "g721_32" }, { SF_FORMAT_G723_24, "g723_24" }, { SF_FORMAT_G723_40, "g723_40" },
	{ SF_FORMAT_DWVW_12, "dwvw_12" }, { SF_FORMAT_DWVW_16, "dwvw_16" }, { SF_FORMAT_DWVW_24, "dwvw_24" }, { SF_FORMAT_DWVW_N, "dwvw_n" },
	{ SF_FORMAT_DPCM_8, "dpcm_8" }, { SF_FORMAT_DPCM_16, "dpcm_16" }, { SF_FORMAT_VORBIS, "vorbis" }, { SF_FORMAT_OPUS, "opus" },
	{ SF_FORMAT_ALAC_16, "alac_16" }, { SF_FORMAT_ALAC_20, "alac_20" }, { SF_FORMAT_ALAC_24, "alac_24" }, { SF_FORMAT_ALAC_32, "alac_32" },
	{ SF_FORMAT_MPEG_LAYER_I, "mp1" }, { SF_FORMAT_MPEG_LAYER_II, "mp2" }, { SF_FORMAT_MPEG_LAYER_III, "mp3" }, { 0, NULL }
} ;

const char *major_name (int format)
{	static char buf [16] ;
	for (int i = 0 ; majors [i].name ; i++) if (majors [i].code == (format & SF_FORMAT_TYPEMASK)) return majors [i].name ;
	snprintf (buf, sizeof (buf), "m%x", (format & SF_FORMAT_TYPEMASK) >> 16) ; return buf ;
}
const char *sub_name (int format)
{	static char buf [16] ;
	for (int i = 0 ; subs [i].name ; i++) if (subs [i].code == (format & SF_FORMAT_SUBMASK)) return subs [i].name ;
	snprintf (buf, sizeof (buf), "s%x", format & SF_FORMAT_SUBMASK) ; return buf ;
}

static void traits (Fmt *f)
{	int major = f->format & SF_FORMAT_TYPEMASK, sub = f->format & SF_FORMAT_SUBMASK ;

	f->gran = 1 ; f->width = 0 ; f->is_float = 0 ; f->lossless = 0 ; f->unsigned8 = 0 ; f->seekable_codec = 1 ;
	switch (sub)
	{	case SF_FORMAT_PCM_S8 : f->width = 8 ; break ;
		case SF_FORMAT_PCM_U8 : f->width = 8 ; f->unsigned8 = 1 ; break ;
		case SF_FORMAT_PCM_16 : f->width = 16 ; break ;
		case SF_FORMAT_PCM_24 : f->width = 24 ; break ;
		case SF_FORMAT_PCM_32 : f->width = 32 ; break ;
		case SF_FORMAT_FLOAT : f->is_float = 32 ; break ;
		case SF_FORMAT_DOUBLE : f->is_float = 64 ; break ;
		case SF_FORMAT_ALAC_16 : f->width = 16 ; f->gran = 0 ; break ;
		case SF_FORMAT_ALAC_20 : f->width = 20 ; f->gran = 0 ; break ;
		case SF_FORMAT_ALAC_24 : f->width = 24 ; f->gran = 0 ; break ;
		case SF_FORMAT_ALAC_32 : f->width = 32 ; f->gran = 0 ; break ;
		case SF_FORMAT_DWVW_12 : f->width = 12 ; f->gran = 0 ; break ;
		case SF_FORMAT_DWVW_16 : f->width = 16 ; f->gran = 0 ; break ;
		case SF_FORMAT_DWVW_24 : f->width = 24 ; f->gran = 0 ; break ;
		case SF_FORMAT_DPCM_8 : f->width = 8 ; break ;
		case SF_FORMAT_DPCM_16 : f->width = 16 ; break ;
		case SF_FORMAT_ULAW : case SF_FORMAT_ALAW : break ;
		default : f->gran = 0 ; break ;
		}
	/* PAF 24-bit and all SDS data are stored in blocks although the samples are plain integers */
	if (major == SF_FORMAT_PAF && sub == SF_FORMAT_PCM_24) f->gran = 0 ;
	if (major == SF_FORMAT_SDS) f->gran = 0 ;

	/* which caller types are lossless (C01 statement): integer-coded encodings for short and int
	** (after masking to the stored width), float files for float, double files for float and double. */
	if (f->width) f->lossless = (1 << T_SHORT) | (1 << T_INT) ;
	if (f->is_float == 32) f->lossless = (1 << T_FLOAT) ;
	if (f->is_float == 64) f->lossless = (1 << T_FLOAT) | (1 << T_DOUBLE) ;

	/* sample-rate field of the container */
	switch (major)
	{	case SF_FORMAT_SVX : case SF_FORMAT_MPC2K : f->rate_kind = RATE_U16 ; break ;
		case SF_FORMAT_IRCAM : f->rate_kind = RATE_F32 ; break ;
		case SF_FORMAT_HTK : f->rate_kind = RATE_HTK ; break ;
		case SF_FORMAT_SDS : f->rate_kind = RATE_SDS ; break ;
		case SF_FORMAT_VOC : f->rate_kind = RATE_VOC ; break ;
		case SF_FORMAT_XI : f->rate_kind = RATE_FIXED ; f->fixed_rate = 44100 ; break ;
		case SF_FORMAT_WVE : f->rate_kind = RATE_FIXED ; f->fixed_rate = 8000 ; break ;
		case SF_FORMAT_RAW : f->rate_kind = RATE_NONE ; break ;
		default : f->rate_kind = RATE_EXACT ; break ;
		}

	/* containers whose data chunk is padded to an even byte count */
	f->pads_odd = (major == SF_FORMAT_AIFF || major == SF_FORMAT_SVX || major == SF_FORMAT_WAV ||
					major == SF_FORMAT_WAVEX || major == SF_FORMAT_RF64 || major == SF_FORMAT_W64 || major == SF_FORMAT_CAF) ;

	f->rewritable = (major != SF_FORMAT_RAW) ;
	f->peak = (major == SF_FORMAT_WAV || major == SF_FORMAT_WAVEX || major == SF_FORMAT_AIFF || major == SF_FORMAT_CAF || major == SF_FORMAT_RF64) && f->is_float ;
	f->minch = 1 ; f->maxch = 1024 ;
	f->needs_path = (major == SF_FORMAT_SD2) ;
}

int fmt_block (const Fmt *f, int channels, int samplerate)
{	int major = f->format & SF_FORMAT_TYPEMASK, sub = f->format & SF_FORMAT_SUBMASK, ba ;
	long prod = (long) samplerate * channels ;

	switch (sub)
	{	case SF_FORMAT_IMA_ADPCM :
			if (major == SF_FORMAT_AIFF) return 64 ;
			ba = prod < 12000 ? 256 : prod < 23000 ? 512 : prod < 44000 ? 1024 : 2048 ;
			return 2 * (ba - 4 * channels) / channels + 1 ;
		case SF_FORMAT_MS_ADPCM :
			ba = prod < 12000 ? 256 : prod < 23000 ? 512 : prod < 44000 ? 1024 : 2048 ;
			return 2 + 2 * (ba - 7 * channels) / channels ;
		case SF_FORMAT_GSM610 :
			return (major == SF_FORMAT_WAV || major == SF_FORMAT_W64) ? 320 : 160 ;
		case SF_FORMAT_G721_32 : case SF_FORMAT_G723_24 : case SF_FORMAT_G723_40 : return 120 ;
		case SF_FORMAT_NMS_ADPCM_16 : case SF_FORMAT_NMS_ADPCM_24 : case SF_FORMAT_NMS_ADPCM_32 : return 160 ;
		case SF_FORMAT_VOX_ADPCM : return 2 ;
		case SF_FORMAT_ALAC_16 : case SF_FORMAT_ALAC_20 : case SF_FORMAT_ALAC_24 : case SF_FORMAT_ALAC_32 : return 4096 ;
		case SF_FORMAT_DWVW_12 : case SF_FORMAT_DWVW_16 : case SF_FORMAT_DWVW_24 : return 0 ;
		default : break ;
		}
	if (major == SF_FORMAT_PAF && sub == SF_FORMAT_PCM_24) return 10 ;
	if (major == SF_FORMAT_SDS) return sub == SF_FORMAT_PCM_S8 ? 60 : sub == SF_FORMAT_PCM_16 ? 40 : 30 ;
	return 1 ;
}

int fmt_default_rate (const Fmt *f)
{	if (f->rate_kind == RATE_FIXED) return f->fixed_rate ;
	if (f->rate_kind == RATE_SDS) return 40000 ;		/* 25000 ns period, divides 10^9 */
	if (f->rate_kind == RATE_HTK) return 8000 ;
	if (f->rate_kind == RATE_VOC) return 8000 ;
	return 8000 ;
}

/* Can the container's sample-rate field hold `rate` exactly?  From the container specifications. */
int fmt_rate_representable (const Fmt *f, int rate, int channels)
{	int sub = f->format & SF_FORMAT_SUBMASK ;
	if (rate < 1) return 0 ;
	switch (f->rate_kind)
	{	case RATE_EXACT : return 1 ;
		case RATE_U16 : return rate <= 65535 ;
		case RATE_F32 : return (double) (float) rate == (double) rate ;
		case RATE_HTK : return 10000000 % rate == 0 ;
		case RATE_SDS : return 1000000000 % rate == 0 && 1000000000 / rate < (1 << 21) ;
		case RATE_FIXED : return rate == f->fixed_rate ;
		case RATE_VOC :
			/* 8-bit mono block type 1 : divisor byte 256 - 1000000/rate ; extended / type 9 : 32-bit rate */
			if (sub == SF_FORMAT_PCM_U8 && channels == 1)
				return 1000000 % rate == 0 && 1000000 / rate >= 1 && 1000000 / rate <= 255 ;
			if (sub == SF_FORMAT_PCM_U8 && channels == 2)
				return 128000000 % rate == 0 && 128000000 / rate >= 1 && 128000000 / rate <= 65535 ;
			return 1 ;
		default : return 0 ;
		}
}

const Fmt *fmt_find (int format)
{	for (int i = 0 ; i < fmt_count ; i++) if (fmt_list [i].format == format) return &fmt_list [i] ;
	return NULL ;
}

const Fmt *fmt_by_name (const char *name)
{	for (int i = 0 ; i < fmt_count ; i++) if (strcmp (fmt_list [i].name, name) == 0) return &fmt_list [i] ;
	return NULL ;
}

void fmt_build (void)
{	int nmajor = 0, nsub = 0 ;
	static const int endians [4] = { SF_ENDIAN_FILE, SF_ENDIAN_LITTLE, SF_ENDIAN_BIG, SF_ENDIAN_CPU } ;
	static const char *endnames [4] = { "file", "le", "be", "cpu" } ;

	if (fmt_list) return ;
	sf_command (NULL, SFC_GET_FORMAT_MAJOR_COUNT, &nmajor, sizeof (int)) ;
	sf_command (NULL, SFC_GET_FORMAT_SUBTYPE_COUNT, &nsub, sizeof (int)) ;
	fmt_list = calloc ((size_t) nmajor * nsub * 4 + 1, sizeof (Fmt)) ;
	for (int m = 0 ; m < nmajor ; m++)
	{	SF_FORMAT_INFO mi ; mi.format = m ;
		sf_command (NULL, SFC_GET_FORMAT_MAJOR, &mi, sizeof (mi)) ;
		for (int s = 0 ; s < nsub ; s++)
		{	SF_FORMAT_INFO si ; si.format = s ;
			sf_command (NULL, SFC_GET_FORMAT_SUBTYPE, &si, sizeof (si)) ;
			for (int e = 0 ; e < 4 ; e++)
			{	SF_INFO info ; memset (&info, 0, sizeof (info)) ;
				info.format = mi.format | si.format | endians [e] ;
				info.channels = 1 ; info.samplerate = 8000 ;
				if (! sf_format_check (&info)) continue ;
				Fmt *f = &fmt_list [fmt_count ++] ;
				f->format = info.format ;
				snprintf (f->name, sizeof (f->name), "%s/%s/%s", major_name (info.format), sub_name (info.format), endnames [e]) ;
				traits (f) ;
				}
			}
		}
}
