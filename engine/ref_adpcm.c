/* ref_adpcm.c - reference IMA ADPCM (Microsoft WAV layout and Apple 'ima4' AIFF-C layout) and Microsoft
** ADPCM block decoders, written from the IMA Digital Audio Focus recommended practices / Microsoft
** "New Multimedia Data Types and Data Techniques" descriptions. Independent of libsndfile's sources.
*/
#include "ref.h"

static const int ima_steps [89] =
{	7, 8, 9, 10, 11, 12, 13, 14, 16, 17, 19, 21, 23, 25, 28, 31, 34, 37, 41, 45, 50, 55, 60, 66, 73, 80, 88, 97, 107, 118,
	130, 143, 157, 173, 190, 209, 230, 253, 279, 307, 337, 371, 408, 449, 494, 544, 598, 658, 724, 796, 876, 963,
	1060, 1166, 1282, 1411, 1552, 1707, 1878, 2066, 2272, 2499, 2749, 3024, 3327, 3660, 4026, 4428, 4871, 5358,
	5894, 6484, 7132, 7845, 8630, 9493, 10442, 11487, 12635, 13899, 15289, 16818, 18500, 20350, 22385, 24623,
	27086, 29794, 32767
} ;
static const int ima_index_adj [16] = { -1, -1, -1, -1, 2, 4, 6, 8, -1, -1, -1, -1, 2, 4, 6, 8 } ;

static int ima_step (int *pred, int *index, int nibble)
{	int step = ima_steps [*index], diff = step >> 3 ;
	if (nibble & 4) diff += step ;
	if (nibble & 2) diff += step >> 1 ;
	if (nibble & 1) diff += step >> 2 ;
	*pred += (nibble & 8) ? -diff : diff ;
	if (*pred > 32767) *pred = 32767 ;
	if (*pred < -32768) *pred = -32768 ;
	*index += ima_index_adj [nibble] ;
	if (*index < 0) *index = 0 ;
	if (*index > 88) *index = 88 ;
	return *pred ;
}

/* WAV layout: per channel 4 header bytes (predictor LE16, step index, reserved); then groups of 4 bytes per
** channel, each byte two nibbles, low nibble first. First output sample of each channel is the header predictor. */
int ref_ima_wav_decode_block (const unsigned char *blk, int blocksize, int channels, short *out, int max_frames)
{	int pred [2], index [2], frames = 1 + (blocksize - 4 * channels) * 2 / channels ;
	if (frames > max_frames) frames = max_frames ;
	for (int c = 0 ; c < channels ; c++)
	{	pred [c] = (short) (blk [4 * c] | (blk [4 * c + 1] << 8)) ;
		index [c] = blk [4 * c + 2] ;
		if (index [c] > 88) return -1 ;		/* outside the standard's domain */
		out [c] = (short) pred [c] ;
		}
	const unsigned char *p = blk + 4 * channels ;
	for (int f = 1 ; f < frames ; f += 8)
		for (int c = 0 ; c < channels ; c++)
			for (int k = 0 ; k < 8 ; k++)
			{	int nib = (p [k / 2] >> ((k & 1) ? 4 : 0)) & 0x0F, v = ima_step (&pred [c], &index [c], nib) ;
				if (f + k < frames) out [(f + k) * channels + c] = (short) v ;
				if (k == 7) p += 4 ;
				}
	return frames ;
}

/* Apple ima4: 34 bytes per channel per 64 frames: BE16 header = predictor (upper 9 bits) | step index (7 bits);
** 32 data bytes, low nibble first. Channel blocks follow each other. */
int ref_ima_aiff_decode_block (const unsigned char *blk, int channels, short *out)
{	for (int c = 0 ; c < channels ; c++)
	{	const unsigned char *b = blk + 34 * c ;
		int pred = (short) ((b [0] << 8) | (b [1] & 0x80)), index = b [1] & 0x7F ;
		if (index > 88) return -1 ;
		for (int k = 0 ; k < 64 ; k++)
		{	int nib = (b [2 + k / 2] >> ((k & 1) ? 4 : 0)) & 0x0F ;
			out [k * channels + c] = (short) ima_step (&pred, &index, nib) ;
			}
		}
	return 64 ;
}

/* Microsoft ADPCM. Header: bPredictor per channel, iDelta per channel, iSamp1 per channel, iSamp2 per channel;
** data nibbles high first, channels interleaved. Returns frames decoded, or -(frames decoded before iDelta left
** the 16-bit range) - 1000000 style: we report via *valid_frames. */
static const int ms_adapt [16] = { 230, 230, 230, 230, 307, 409, 512, 614, 768, 614, 512, 409, 307, 230, 230, 230 } ;

int ref_ms_adpcm_decode_block (const unsigned char *blk, int blocksize, int channels, const short coeffs [][2], int ncoeffs, short *out, int max_frames)
{	int bpred [2], delta [2], s1 [2], s2 [2], frames = 2 + 2 * (blocksize - 7 * channels) / channels, valid ;
	const unsigned char *p = blk ;
	if (frames > max_frames) frames = max_frames ;
	for (int c = 0 ; c < channels ; c++) { bpred [c] = *p++ ; if (bpred [c] >= ncoeffs) return -1 ; }
	for (int c = 0 ; c < channels ; c++) { delta [c] = (short) (p [0] | (p [1] << 8)) ; p += 2 ; if (delta [c] < 0) return -1 ; }
	for (int c = 0 ; c < channels ; c++) { s1 [c] = (short) (p [0] | (p [1] << 8)) ; p += 2 ; }
	for (int c = 0 ; c < channels ; c++) { s2 [c] = (short) (p [0] | (p [1] << 8)) ; p += 2 ; }
	for (int c = 0 ; c < channels ; c++) { out [c] = (short) s2 [c] ; out [channels + c] = (short) s1 [c] ; }
	valid = frames ;
	int nibble_no = 0 ;
	for (int f = 2 ; f < frames ; f++)
		for (int c = 0 ; c < channels ; c++, nibble_no ++)
		{	int byte = p [nibble_no / 2], nib = (nibble_no & 1) ? (byte & 0x0F) : (byte >> 4), snib = (nib & 8) ? nib - 16 : nib ;
			int predict = (s1 [c] * coeffs [bpred [c]][0] + s2 [c] * coeffs [bpred [c]][1]) >> 8 ;
			int cur = predict + snib * delta [c] ;
			if (cur > 32767) cur = 32767 ;
			if (cur < -32768) cur = -32768 ;
			delta [c] = (ms_adapt [nib] * delta [c]) >> 8 ;
			if (delta [c] < 16) delta [c] = 16 ;
			if (delta [c] > 32767 && f < valid) valid = f + 1 ;	/* iDelta no longer fits 16 bits: later samples undefined */
			s2 [c] = s1 [c] ; s1 [c] = cur ;
			out [f * channels + c] = (short) cur ;
			}
	return valid ;
}
