/* ref_adpcm.c - reference IMA (WAV and AIFF layouts) and Microsoft ADPCM block decoders (see C20) */
#include "ref.h"
