/* vlib.c - runtime: main(), sharded case enumeration, fork supervision, violation records. */
#define _GNU_SOURCE
#include "vlib.h"
#include <unistd.h>
#include <signal.h>
#include <time.h>
#include <errno.h>
#include <fcntl.h>
#include <sys/mman.h>
#include <sys/wait.h>
#include <sys/stat.h>

VlOpts vl_opts ;
volatile int vl_inlib = 0 ;

#define MAX_SIGS	1024
#define SIG_LEN		200
#define MAX_ROOTS	1024
#define ROOT_LEN	64
#define OUTSET_BITS	20
#define MAX_SAMPLES	6
#define SPEC_LEN	1024

typedef struct
{	volatile long	cur_idx ;			/* index of the case being executed (-1 none) */
	volatile long	heartbeat ;
	char			cur_spec [SPEC_LEN] ;
	long			cases_seen ;		/* total vl_case calls of the last complete enumeration */
	long			evals, nontrivial, states, transitions, extra [8] ;
	long			violations ;
	int				not_exhaustive ;
	char			why [256] ;
	int				nsigs ;
	struct { char sig [SIG_LEN] ; long count ; } sigs [MAX_SIGS] ;
	int				nroots ;
	struct { char name [ROOT_LEN] ; long count ; } roots [MAX_ROOTS] ;
	long			noutcomes ;
	uint64_t		outset [1 << OUTSET_BITS] ;
	int				nsamples ;
	char			samples [MAX_SAMPLES][SPEC_LEN] ;
	int				done ;
} Shared ;

static Shared *sh ;
static FILE *outf ;
static long case_idx = -1, resume_from = 0 ;
static double case_t0 ;
static int in_case = 0, case_viols = 0 ;
static uint64_t transcript ;
static int replay_mode = 0, replay_hit = 0 ;
static char cur_spec_local [SPEC_LEN] ;

static double now_s (void)
{	struct timespec ts ; clock_gettime (CLOCK_MONOTONIC, &ts) ;
	return ts.tv_sec + ts.tv_nsec * 1e-9 ;
}

uint64_t vl_hash (const void *p, size_t n, uint64_t h)
{	const unsigned char *c = p ;
	for (size_t i = 0 ; i < n ; i++) { h ^= c [i] ; h *= 1099511628211ULL ; }
	return h ;
}
uint64_t vl_hash_u64 (uint64_t v, uint64_t h) { return vl_hash (&v, 8, h) ; }

static void json_str (FILE *f, const char *s)
{	fputc ('"', f) ;
	for ( ; *s ; s++)
	{	unsigned char c = *s ;
		if (c == '"' || c == '\\') { fputc ('\\', f) ; fputc (c, f) ; }
		else if (c < 0x20 || c >= 0x7f) fprintf (f, "\\u%04x", c) ;
		else fputc (c, f) ;
		}
	fputc ('"', f) ;
}

int vl_deadline_passed (void)
{	return vl_opts.deadline > 0 && now_s () > vl_opts.deadline ;
}

void vl_not_exhaustive (const char *why)
{	if (! sh->not_exhaustive) { sh->not_exhaustive = 1 ; snprintf (sh->why, sizeof (sh->why), "%s", why) ; }
}

/* cases are dealt to the workers by a mixed index, not round-robin: harnesses emit their cases in regular patterns (route A, route B,
** route A, ...) and a plain modulo would hand all the expensive ones to the same workers */
static inline int shard_of (long idx)
{	uint64_t x = (uint64_t) idx * 0x9E3779B97F4A7C15ULL ; x ^= x >> 29 ;
	return (int) ((x >> 17) % (uint64_t) vl_opts.nshards) ;
}

int vl_case (const char *fmt, ...)
{	va_list ap ;
	if (in_case) { fprintf (stderr, "engine error: vl_case inside a case (%s)\n", cur_spec_local) ; _exit (70) ; }
	case_idx ++ ;
	if (replay_mode)
	{	va_start (ap, fmt) ; vsnprintf (cur_spec_local, SPEC_LEN, fmt, ap) ; va_end (ap) ;
		if (strcmp (cur_spec_local, vl_opts.replay) != 0) return 0 ;
		replay_hit ++ ;
		}
	else
	{	if (case_idx < resume_from) return 0 ;
		if (vl_opts.nshards > 1 && shard_of (case_idx) != vl_opts.shard) return 0 ;
		{	static long selected ;	/* cases this worker got as far as considering */
			if ((++ selected & 31) == 0 && vl_deadline_passed ())
				vl_not_exhaustive ("global deadline reached during enumeration") ;
			}
		if (sh->not_exhaustive && vl_opts.deadline > 0 && now_s () > vl_opts.deadline) return 0 ;
		va_start (ap, fmt) ; vsnprintf (cur_spec_local, SPEC_LEN, fmt, ap) ; va_end (ap) ;
		}
	memcpy (sh->cur_spec, cur_spec_local, SPEC_LEN) ;
	sh->cur_idx = case_idx ;
	sh->heartbeat ++ ;
	in_case = 1 ; case_viols = 0 ; transcript = VL_H0 ; case_t0 = now_s () ;
	if (replay_mode) printf ("CASE %s\n", cur_spec_local) ;
	return 1 ;
}

/* vl_peek: would the next vl_case () execute its body? (always 1 when replaying: the spec has to be compared)
** vl_skip: account for n cases that vl_peek said would not execute, without formatting their specs. */
int vl_peek (void)
{	long idx = case_idx + 1 ;
	if (replay_mode) return 1 ;
	if (idx < resume_from) return 0 ;
	if (vl_opts.nshards > 1 && shard_of (idx) != vl_opts.shard) return 0 ;
	return 1 ;
}
void vl_skip (long n) { case_idx += n ; }

void vl_subcase (const char *fmt, ...)
{	va_list ap ;
	if (! in_case || replay_mode) return ;
	va_start (ap, fmt) ; vsnprintf (cur_spec_local, SPEC_LEN, fmt, ap) ; va_end (ap) ;
	memcpy (sh->cur_spec, cur_spec_local, SPEC_LEN) ;
	sh->heartbeat ++ ;
}

const char *vl_spec (void) { return cur_spec_local ; }
int vl_replaying (void) { return replay_mode ; }
int vl_case_violations (void) { return case_viols ; }

void vl_end (int nontrivial, uint64_t outcome)
{	if (! in_case) return ;
	in_case = 0 ;
	if (now_s () - case_t0 > 5.0) fprintf (stderr, "slow case (%.1f s): %s\n", now_s () - case_t0, cur_spec_local) ;	/* diagnostic only */
	sh->evals ++ ;
	if (nontrivial) sh->nontrivial ++ ;
	outcome = vl_hash_u64 (transcript, outcome) ;
	/* distinct outcome set */
	uint64_t k = outcome | 1 ;
	size_t m = ((size_t) 1 << OUTSET_BITS) - 1, i = (k * 0x9E3779B97F4A7C15ULL) >> (64 - OUTSET_BITS) ;
	for (int probe = 0 ; probe < 64 ; probe ++, i = (i + 1) & m)
	{	if (sh->outset [i] == k) break ;
		if (sh->outset [i] == 0) { sh->outset [i] = k ; sh->noutcomes ++ ; break ; }
		}
	if (sh->nsamples < MAX_SAMPLES && (sh->evals == 1 || sh->evals == 101 || sh->evals == 1009 || sh->evals == 5003 || sh->evals == 20011 || sh->evals == 40009))
	{	memcpy (sh->samples [sh->nsamples], cur_spec_local, SPEC_LEN) ; sh->nsamples ++ ; }
	if (replay_mode) printf ("END outcome=%016llx violations=%d\n", (unsigned long long) outcome, case_viols) ;
	sh->cur_idx = -1 ;
}

void vl_sample (const char *fmt, ...)
{	va_list ap ;
	if (sh->nsamples >= MAX_SAMPLES) return ;
	va_start (ap, fmt) ; vsnprintf (sh->samples [sh->nsamples], SPEC_LEN, fmt, ap) ; va_end (ap) ;
	sh->nsamples ++ ;
}

static void emit_violation (const char *sig, const char *spec, const char *detail)
{	int i ;
	sh->violations ++ ;
	for (i = 0 ; i < sh->nsigs ; i++)
		if (strcmp (sh->sigs [i].sig, sig) == 0) break ;
	if (i == sh->nsigs)
	{	if (sh->nsigs < MAX_SIGS)
		{	snprintf (sh->sigs [i].sig, SIG_LEN, "%s", sig) ; sh->sigs [i].count = 0 ; sh->nsigs ++ ; }
		else i = -1 ;
		}
	if (i >= 0) sh->sigs [i].count ++ ;
	if (replay_mode)
	{	printf ("VIOL sig=%s detail=%s\n", sig, detail) ; fflush (stdout) ; return ; }
	if (i < 0 || sh->sigs [i].count <= 3)
	{	fputs ("{\"t\":\"v\",\"sig\":", outf) ; json_str (outf, sig) ;
		fputs (",\"spec\":", outf) ; json_str (outf, spec) ;
		fputs (",\"detail\":", outf) ; json_str (outf, detail) ;
		fputs ("}\n", outf) ; fflush (outf) ;
		}
}

void vl_violation (const char *sig, const char *fmt, ...)
{	char detail [1024], fullsig [SIG_LEN] ; va_list ap ;
	int saved = vl_inlib ; vl_inlib = 0 ;
	va_start (ap, fmt) ; vsnprintf (detail, sizeof (detail), fmt, ap) ; va_end (ap) ;
	snprintf (fullsig, sizeof (fullsig), "%s|%s", vl_opts.prop, sig) ;
	case_viols ++ ;
	transcript = vl_hash (fullsig, strlen (fullsig), transcript) ;
	emit_violation (fullsig, cur_spec_local, detail) ;
	vl_inlib = saved ;
}

void vl_note (const char *fmt, ...)
{	char line [2048] ; va_list ap ; int saved = vl_inlib ; vl_inlib = 0 ;
	va_start (ap, fmt) ; vsnprintf (line, sizeof (line), fmt, ap) ; va_end (ap) ;
	transcript = vl_hash (line, strlen (line), transcript) ;
	if (replay_mode || vl_opts.verbose) printf ("  %s\n", line) ;
	vl_inlib = saved ;
}

void vl_count_states (long n) { sh->states += n ; }
void vl_count_transitions (long n) { sh->transitions += n ; }
void vl_count_extra (int slot, long n) { sh->extra [slot & 7] += n ; }

void vl_root_count (const char *root)
{	static int last = -1 ;
	if (last >= 0 && last < sh->nroots && strcmp (sh->roots [last].name, root) == 0) { sh->roots [last].count ++ ; return ; }
	for (int i = 0 ; i < sh->nroots ; i++)
		if (strcmp (sh->roots [i].name, root) == 0) { sh->roots [i].count ++ ; last = i ; return ; }
	if (sh->nroots < MAX_ROOTS)
	{	snprintf (sh->roots [sh->nroots].name, ROOT_LEN, "%s", root) ; sh->roots [sh->nroots].count = 1 ; last = sh->nroots ++ ; }
}

/* called by memdev when the callback budget is exhausted */
void vl_budget_exceeded (const char *what)
{	char sig [SIG_LEN] ;
	vl_inlib = 0 ;
	snprintf (sig, sizeof (sig), "%s|hang:io-budget", what) ;
	vl_violation (sig, "I/O callback budget exhausted") ;
	if (replay_mode) { printf ("END (budget exit)\n") ; fflush (stdout) ; }
	else fflush (outf) ;
	_exit (77) ;
}

/* ------------------------------------------------------------------ supervisor */

static char errpath [512] ;

static void crash_signature (int status, char *sig, size_t n, char *detail, size_t dn)
{	char type [96] = "", func [96] = "" ; FILE *f ; char line [1024] ;
	int in_repo_frame = 0 ;
	detail [0] = 0 ;
	if ((f = fopen (errpath, "r")) != NULL)
	{	while (fgets (line, sizeof (line), f))
		{	char *p ;
			if (type [0] == 0 && (p = strstr (line, "ERROR: AddressSanitizer: ")) != NULL)
			{	sscanf (p + 25, "%90[^ :\n]", type) ;
				snprintf (detail, dn, "%.300s", p) ;
				}
			if (type [0] && ! in_repo_frame && (p = strstr (line, " in ")) != NULL && strstr (line, "/src/") != NULL
					&& strstr (line, "/engine/") == NULL && strstr (line, "libsanitizer") == NULL)
			{	sscanf (p + 4, "%90[^ \n]", func) ; in_repo_frame = 1 ; }
			}
		fclose (f) ;
		}
	for (char *q = detail ; *q ; q++) if (*q == '\n') *q = ' ' ;
	if (type [0])
		snprintf (sig, n, "asan:%s@%s", type, func [0] ? func : "?") ;
	else if (WIFSIGNALED (status))
		snprintf (sig, n, "crash:signal-%d", WTERMSIG (status)) ;
	else
		snprintf (sig, n, "crash:exit-%d", WEXITSTATUS (status)) ;
}

static void write_summary (double t0)
{	fputs ("{\"t\":\"sum\"", outf) ;
	fprintf (outf, ",\"shard\":%d,\"evals\":%ld,\"nontrivial\":%ld,\"states\":%ld,\"transitions\":%ld,\"outcomes\":%ld,\"violations\":%ld,\"cases_seen\":%ld,\"exhaustive\":%s",
		vl_opts.shard, sh->evals, sh->nontrivial, sh->states, sh->transitions, sh->noutcomes, sh->violations, sh->cases_seen,
		sh->not_exhaustive ? "false" : "true") ;
	fputs (",\"why\":", outf) ; json_str (outf, sh->why) ;
	fprintf (outf, ",\"extra\":[%ld,%ld,%ld,%ld,%ld,%ld,%ld,%ld]", sh->extra [0], sh->extra [1], sh->extra [2], sh->extra [3], sh->extra [4], sh->extra [5], sh->extra [6], sh->extra [7]) ;
	fputs (",\"sigs\":{", outf) ;
	for (int i = 0 ; i < sh->nsigs ; i++)
	{	if (i) fputc (',', outf) ; json_str (outf, sh->sigs [i].sig) ; fprintf (outf, ":%ld", sh->sigs [i].count) ; }
	fputs ("},\"roots\":{", outf) ;
	for (int i = 0 ; i < sh->nroots ; i++)
	{	if (i) fputc (',', outf) ; json_str (outf, sh->roots [i].name) ; fprintf (outf, ":%ld", sh->roots [i].count) ; }
	fputs ("},\"samples\":[", outf) ;
	for (int i = 0 ; i < sh->nsamples ; i++)
	{	if (i) fputc (',', outf) ; json_str (outf, sh->samples [i]) ; }
	fprintf (outf, "],\"wall_s\":%.3f}\n", now_s () - t0) ;
	fflush (outf) ;
}

static void usage (void)
{	fprintf (stderr, "usage: %s --prop Cxx [--tier quick|thorough] [--shard i/n] [--out file] [--replay spec] [--deadline secs] [--seed n] [-v]\n", harness_name) ;
	exit (64) ;
}

int main (int argc, char **argv)
{	const char *outpath = NULL ; double deadline_rel = 0 ; double t0 = now_s () ;
	int case_timeout = 60 ;

	vl_opts.prop = "C00" ; vl_opts.nshards = 1 ;
	for (int i = 1 ; i < argc ; i++)
	{	if (! strcmp (argv [i], "--prop") && i + 1 < argc) vl_opts.prop = argv [++i] ;
		else if (! strcmp (argv [i], "--tier") && i + 1 < argc) vl_opts.thorough = ! strcmp (argv [++i], "thorough") ;
		else if (! strcmp (argv [i], "--shard") && i + 1 < argc) sscanf (argv [++i], "%d/%d", &vl_opts.shard, &vl_opts.nshards) ;
		else if (! strcmp (argv [i], "--out") && i + 1 < argc) outpath = argv [++i] ;
		else if (! strcmp (argv [i], "--replay") && i + 1 < argc) vl_opts.replay = argv [++i] ;
		else if (! strcmp (argv [i], "--deadline") && i + 1 < argc) deadline_rel = atof (argv [++i]) ;
		else if (! strcmp (argv [i], "--seed") && i + 1 < argc) vl_opts.seed = strtoull (argv [++i], NULL, 10) ;
		else if (! strcmp (argv [i], "--case-timeout") && i + 1 < argc) case_timeout = atoi (argv [++i]) ;
		else if (! strcmp (argv [i], "-v")) vl_opts.verbose = 1 ;
		else usage () ;
		}
	if (deadline_rel > 0) vl_opts.deadline = t0 + deadline_rel ;

	sh = mmap (NULL, sizeof (Shared), PROT_READ | PROT_WRITE, MAP_SHARED | MAP_ANONYMOUS, -1, 0) ;
	if (sh == MAP_FAILED) { perror ("mmap") ; return 70 ; }
	sh->cur_idx = -1 ;

	signal (SIGPIPE, SIG_IGN) ;

	if (vl_opts.replay)
	{	replay_mode = 1 ; outf = stdout ;
		setvbuf (stdout, NULL, _IOLBF, 0) ;
		harness_run () ;
		if (! replay_hit) { printf ("REPLAY-NOT-FOUND %s\n", vl_opts.replay) ; return 4 ; }
		printf ("REPLAY-DONE violations=%ld\n", sh->violations) ;
		return 0 ;
		}

	outf = outpath ? fopen (outpath, "a") : stdout ;
	if (! outf) { perror (outpath) ; return 70 ; }
	snprintf (errpath, sizeof (errpath), "%s.err", outpath ? outpath : "/dev/null") ;

	int ncrashed = 0 ;
	for (int attempt = 0 ; attempt < 100000 ; attempt ++)
	{	pid_t pid ; int status = 0 ;
		fflush (outf) ;
		sh->cur_idx = -1 ;
		pid = fork () ;
		if (pid < 0) { perror ("fork") ; return 70 ; }
		if (pid == 0)
		{	int fd = open (errpath, O_WRONLY | O_CREAT | O_TRUNC, 0644) ;
			if (fd >= 0) { dup2 (fd, 2) ; close (fd) ; }
			case_idx = -1 ;
			harness_run () ;
			sh->cases_seen = case_idx + 1 ;
			sh->done = 1 ;
			fflush (outf) ;
			_exit (0) ;
			}
		/* parent: watch progress */
		long last_hb = -1 ; double last_change = now_s () ; int killed = 0 ;
		for (;;)
		{	pid_t r = waitpid (pid, &status, WNOHANG) ;
			if (r == pid) break ;
			if (sh->heartbeat != last_hb) { last_hb = sh->heartbeat ; last_change = now_s () ; }
			else if (now_s () - last_change > case_timeout)
			{	kill (pid, SIGKILL) ; waitpid (pid, &status, 0) ; killed = 1 ; break ; }
			usleep (20000) ;
			}
		if (! killed && WIFEXITED (status) && WEXITSTATUS (status) == 0) break ;
		if (! killed && WIFEXITED (status) && WEXITSTATUS (status) == 3) { fprintf (stderr, "harness engine error (exit 3)\n") ; return 3 ; }
		{	char sig [SIG_LEN], full [SIG_LEN + 16], detail [512] ; long idx = sh->cur_idx ;
			if (idx < 0)
			{	/* died outside any case: engine problem */
				crash_signature (status, sig, sizeof (sig), detail, sizeof (detail)) ;
				fprintf (stderr, "harness died outside a case: %s %s (see %s)\n", sig, detail, errpath) ;
				fputs ("{\"t\":\"engine_error\",\"what\":", outf) ; json_str (outf, sig) ; fputs ("}\n", outf) ; fflush (outf) ;
				return 3 ;
				}
			if (killed)
			{	snprintf (full, sizeof (full), "%s|hang:wallclock", vl_opts.prop) ;
				emit_violation (full, sh->cur_spec, "no progress within case timeout") ;
				}
			else if (WIFEXITED (status) && WEXITSTATUS (status) == 77)
				; /* budget exit: child already recorded it */
			else
			{	crash_signature (status, sig, sizeof (sig), detail, sizeof (detail)) ;
				snprintf (full, sizeof (full), "%s|%s", vl_opts.prop, sig) ;
				emit_violation (full, sh->cur_spec, detail) ;
				}
			sh->evals ++ ;
			resume_from = idx + 1 ;
			/* every case that kills its process costs a restart (the harness rebuilds its inputs): a tree on which cases die by the
			** thousand must still give its verdict in bounded time. The violations are recorded; the rest of this shard is given up. */
			if (++ ncrashed >= 25)
			{	vl_not_exhaustive ("25 cases of this shard crashed or hung: enumeration of the shard stopped (violations recorded)") ; break ; }
			if (vl_deadline_passed ())
			{	vl_not_exhaustive ("global deadline reached after a crashed case") ; break ; }
			}
		}
	write_summary (t0) ;
	return 0 ;
}
