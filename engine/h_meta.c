/* h_meta.c - C12 (metadata set before the audio survives close and re-open) and C13 (custom chunks). */
#include "vlib.h"
#include "rt_common.h"

const char *harness_name = "h_meta" ;

static MemDev dev ;

#define NFRAMES 37
enum { K_STR = 0, K_BEXT, K_CART, K_CUE, K_INST, K_CHMAP, K_NKINDS } ;
static const char *kind_name [K_NKINDS] = { "strings", "bext", "cart", "cues", "instrument", "chanmap" } ;

static const int str_types [] = { SF_STR_TITLE, SF_STR_COPYRIGHT, SF_STR_SOFTWARE, SF_STR_ARTIST, SF_STR_COMMENT, SF_STR_DATE, SF_STR_ALBUM, SF_STR_LICENSE, SF_STR_TRACKNUMBER, SF_STR_GENRE } ;
static const char *str_names [] = { "title", "copyright", "software", "artist", "comment", "date", "album", "license", "tracknumber", "genre" } ;
#define NSTR 10

/* ---- support matrix (docs/api.md, docs/command.md and which items each container's writer serialises) ---- */
typedef struct { int major ; const char *name ; unsigned strmask ; int bext, cart, cue, inst, chmap, cuenames ; } Container ;
#define SM(t) (1u << (t))
#define WAV_STR (SM (SF_STR_TITLE) | SM (SF_STR_COPYRIGHT) | SM (SF_STR_SOFTWARE) | SM (SF_STR_ARTIST) | SM (SF_STR_COMMENT) | SM (SF_STR_DATE) | SM (SF_STR_ALBUM) | SM (SF_STR_TRACKNUMBER) | SM (SF_STR_GENRE))
#define AIFF_STR (SM (SF_STR_TITLE) | SM (SF_STR_COPYRIGHT) | SM (SF_STR_SOFTWARE) | SM (SF_STR_ARTIST) | SM (SF_STR_COMMENT))
#define CAF_STR (WAV_STR | SM (SF_STR_LICENSE))
static const Container containers [] =
{	{ SF_FORMAT_WAV, "wav", WAV_STR, 1, 1, 1, 1, 0, 0 },
	{ SF_FORMAT_WAVEX, "wavex", WAV_STR, 1, 0, 1, 1, 1, 0 },
	{ SF_FORMAT_RF64, "rf64", WAV_STR, 1, 1, 0, 0, 1, 0 },
	{ SF_FORMAT_AIFF, "aiff", AIFF_STR, 0, 0, 1, 0, 1, 1 },
	{ SF_FORMAT_CAF, "caf", CAF_STR, 0, 0, 0, 0, 1, 0 },
	{ SF_FORMAT_AU, "au", 0, 0, 0, 0, 0, 0, 0 },
	{ SF_FORMAT_W64, "w64", 0, 0, 0, 0, 0, 0, 0 },
	/* the non-default byte order of the containers that have one: the metadata chunks are written and parsed with explicit byte-order switches */
	{ SF_FORMAT_WAV | SF_ENDIAN_BIG, "rifx", WAV_STR, 1, 1, 1, 1, 0, 0 },
	{ SF_FORMAT_AIFF | SF_ENDIAN_LITTLE, "aifc-le", AIFF_STR, 0, 0, 1, 0, 1, 1 },
	{ SF_FORMAT_CAF | SF_ENDIAN_LITTLE, "caf-le", CAF_STR, 0, 0, 0, 0, 1, 0 },
	{ 0, NULL, 0, 0, 0, 0, 0, 0, 0 }
} ;

/* ---- the expected state ---- */
typedef struct
{	char *str [NSTR] ;
	int have_bext ; SF_BROADCAST_INFO bext ;
	int have_cart ; SF_CART_INFO cart ;
	int have_cue ; SF_CUES cues ;
	int have_inst ; SF_INSTRUMENT inst ;
	int have_chmap ; int chmap [8] ;
} Meta ;

static void meta_free (Meta *m) { for (int i = 0 ; i < NSTR ; i++) free (m->str [i]) ; }

/* ---- value alphabets ---- */
#define NTEXT 15
static char *text_value (int v, int *len_out)
{	static const int lens [8] = { 1, 2, 3, 127, 128, 255, 256, 257 } ; char *s ; int n ;
	if (v < 8)
	{	n = lens [v] ; s = malloc (n + 1) ;
		for (int i = 0 ; i < n ; i++) s [i] = (char) ('A' + (i * 7 + v) % 26 + ((i % 5) == 4 ? 32 : 0)) ;
		s [n] = 0 ;
		}
	else
	{	static const char *sp [] = { "caf\xc3\xa9 na\xc3\xafve \xe2\x82\xac", "two\nlines", "cr\rhere", "crlf\r\nline", "trailing spaces   ", " leading", "tab\tsep" } ;
		s = strdup (sp [v - 8]) ; n = (int) strlen (s) ;
		}
	if (len_out) *len_out = n ;
	return s ;
}

static void fill_field (char *dst, size_t width, int variant, int seed)
{	/* variant 0: short text, 1: width-1 chars, 2: exactly width chars (no terminator inside the field) */
	size_t n = variant == 0 ? (width > 6 ? 6 : width - 1) : variant == 1 ? width - 1 : width ;
	memset (dst, 0, width) ;
	for (size_t i = 0 ; i < n ; i++) dst [i] = (char) ('a' + (i + seed) % 26) ;
}

static void make_bext (SF_BROADCAST_INFO *b, int variant)
{	memset (b, 0, sizeof (*b)) ;
	fill_field (b->description, sizeof (b->description), variant % 3, 1) ;
	fill_field (b->originator, sizeof (b->originator), variant % 3, 2) ;
	fill_field (b->originator_reference, sizeof (b->originator_reference), variant % 3, 3) ;
	memcpy (b->origination_date, "2024-02-29", 10) ; memcpy (b->origination_time, "23:59:58", 8) ;
	b->time_reference_low = 0x89ABCDEFu + variant ; b->time_reference_high = 0x01234567u ;
	b->version = 2 ;
	for (int i = 0 ; i < (int) sizeof (b->umid) ; i++) b->umid [i] = (char) (i * 3 + variant + 1) ;
	b->loudness_value = 100 + variant ; b->loudness_range = -5 ; b->max_true_peak_level = 7 ; b->max_momentary_loudness = -300 ; b->max_shortterm_loudness = 12 ;
	{	static const int hl [7] = { 0, 1, 2, 9, 200, 255, 256 } ; int n = hl [variant % 7] ;	/* 256: the text fills the caller's array exactly, no terminator */
		for (int i = 0 ; i < n ; i++) b->coding_history [i] = (char) ('A' + i % 26) ;
		if (variant % 7 == 4) { b->coding_history [50] = '\n' ; b->coding_history [120] = '\r' ; b->coding_history [121] = '\n' ; }
		b->coding_history_size = n ;
		}
}

static void make_cart (SF_CART_INFO *c, int variant)
{	memset (c, 0, sizeof (*c)) ;
	memcpy (c->version, "0101", 4) ;
	fill_field (c->title, sizeof (c->title), variant % 3, 1) ; fill_field (c->artist, sizeof (c->artist), variant % 3, 2) ;
	fill_field (c->cut_id, sizeof (c->cut_id), variant % 3, 3) ; fill_field (c->client_id, sizeof (c->client_id), variant % 3, 4) ;
	fill_field (c->category, sizeof (c->category), variant % 3, 5) ; fill_field (c->classification, sizeof (c->classification), variant % 3, 6) ;
	fill_field (c->out_cue, sizeof (c->out_cue), variant % 3, 7) ;
	memcpy (c->start_date, "2024/02/29", 10) ; memcpy (c->start_time, "00:00:01", 8) ; memcpy (c->end_date, "2099/12/31", 10) ; memcpy (c->end_time, "23:59:59", 8) ;
	fill_field (c->producer_app_id, sizeof (c->producer_app_id), variant % 3, 8) ; fill_field (c->producer_app_version, sizeof (c->producer_app_version), variant % 3, 9) ;
	fill_field (c->user_def, sizeof (c->user_def), variant % 3, 10) ;
	c->level_reference = 32768 + variant ;
	for (int i = 0 ; i < 8 ; i++) { memcpy (c->post_timers [i].usage, "MRK ", 4) ; c->post_timers [i].usage [3] = (char) ('0' + i) ; c->post_timers [i].value = 1000u * i + variant ; }
	fill_field (c->url, sizeof (c->url), variant % 3, 11) ;
	{	static const int tl [6] = { 0, 1, 2, 100, 255, 256 } ; int n = tl [variant % 6] ;	/* 256: fills the array exactly */
		for (int i = 0 ; i < n ; i++) c->tag_text [i] = (char) ('a' + i % 26) ;
		c->tag_text_size = n ;
		}
}

static void make_cues (SF_CUES *q, int variant, const Container *c)
{	static const int counts [5] = { 0, 1, 2, 99, 100 } ; int n = counts [variant % 5] ;
	memset (q, 0, sizeof (*q)) ; q->cue_count = n ;
	for (int i = 0 ; i < n ; i++)
	{	SF_CUE_POINT *p = &q->cue_points [i] ;
		p->indx = i + 1 ; p->sample_offset = (uint32_t) (i * 3 + variant) ;
		p->fcc_chunk = 0x61746164 ;	/* 'data' */
		if ((c->major & SF_FORMAT_TYPEMASK) != SF_FORMAT_AIFF) { p->position = (uint32_t) (i + 7) ; p->chunk_start = 8 + 4 * i ; p->block_start = 512 + i ; }	/* every field its own value: a reader that assigns one field from another shows */
		if (c->cuenames) snprintf (p->name, sizeof (p->name), "Cue %03d%s", i, (i & 1) ? "x" : "") ;
		}
}

static void make_inst (SF_INSTRUMENT *in, int variant, const Container *c)
{	static const int loops [4] = { 0, 1, 2, 16 } ; (void) c ;
	memset (in, 0, sizeof (*in)) ;
	/* WAV 'smpl' cannot store gain, key and velocity ranges: use the values it reports for them */
	in->gain = 1 ; in->basenote = 60 + variant ; in->detune = (char) (3 + variant) ; in->velocity_lo = 0 ; in->velocity_hi = 127 ; in->key_lo = 0 ; in->key_hi = 127 ;
	in->loop_count = loops [variant % 4] ;
	for (int i = 0 ; i < in->loop_count ; i++)
	{	in->loops [i].mode = (i % 3 == 0) ? SF_LOOP_FORWARD : (i % 3 == 1) ? SF_LOOP_BACKWARD : SF_LOOP_ALTERNATING ;
		in->loops [i].start = 10u * i + 1 ; in->loops [i].end = 10u * i + 5 ; in->loops [i].count = i + variant ;
		}
}

static int make_chmap (int *map, int variant, const Container *c, int *channels)
{	/* representable layouts only: the Apple layout tags (AIFF, CAF) / ascending MS speaker masks (WAVEX, RF64) */
	if ((c->major & SF_FORMAT_TYPEMASK) == SF_FORMAT_AIFF || (c->major & SF_FORMAT_TYPEMASK) == SF_FORMAT_CAF)
	{	static const int l2 [2] = { SF_CHANNEL_MAP_LEFT, SF_CHANNEL_MAP_RIGHT }, l3a [3] = { SF_CHANNEL_MAP_LEFT, SF_CHANNEL_MAP_RIGHT, SF_CHANNEL_MAP_CENTER },
			l3b [3] = { SF_CHANNEL_MAP_CENTER, SF_CHANNEL_MAP_LEFT, SF_CHANNEL_MAP_RIGHT }, l4 [4] = { SF_CHANNEL_MAP_AMBISONIC_B_W, SF_CHANNEL_MAP_AMBISONIC_B_X, SF_CHANNEL_MAP_AMBISONIC_B_Y, SF_CHANNEL_MAP_AMBISONIC_B_Z } ;
		switch (variant % 4) { case 0 : memcpy (map, l2, sizeof (l2)) ; *channels = 2 ; break ; case 1 : memcpy (map, l3a, sizeof (l3a)) ; *channels = 3 ; break ;
			case 2 : memcpy (map, l3b, sizeof (l3b)) ; *channels = 3 ; break ; default : memcpy (map, l4, sizeof (l4)) ; *channels = 4 ; break ; }
		}
	else
	{	static const int m2 [2] = { SF_CHANNEL_MAP_FRONT_LEFT, SF_CHANNEL_MAP_FRONT_RIGHT }, m3 [3] = { SF_CHANNEL_MAP_FRONT_LEFT, SF_CHANNEL_MAP_FRONT_RIGHT, SF_CHANNEL_MAP_FRONT_CENTER },
			m4 [4] = { SF_CHANNEL_MAP_FRONT_LEFT, SF_CHANNEL_MAP_FRONT_RIGHT, SF_CHANNEL_MAP_REAR_LEFT, SF_CHANNEL_MAP_REAR_RIGHT },
			m6 [6] = { SF_CHANNEL_MAP_FRONT_LEFT, SF_CHANNEL_MAP_FRONT_RIGHT, SF_CHANNEL_MAP_FRONT_CENTER, SF_CHANNEL_MAP_LFE, SF_CHANNEL_MAP_REAR_LEFT, SF_CHANNEL_MAP_REAR_RIGHT } ;
		switch (variant % 4) { case 0 : memcpy (map, m2, sizeof (m2)) ; *channels = 2 ; break ; case 1 : memcpy (map, m3, sizeof (m3)) ; *channels = 3 ; break ;
			case 2 : memcpy (map, m4, sizeof (m4)) ; *channels = 4 ; break ; default : memcpy (map, m6, sizeof (m6)) ; *channels = 6 ; break ; }
		}
	return 1 ;
}

/* ---- a script: ordered list of set actions ---- */
typedef struct { int kind, sub, variant ; } Action ;	/* sub: string type index for K_STR */

static short *audio (int ch) { static short buf [NFRAMES * 8] ; for (int i = 0 ; i < NFRAMES * ch ; i++) buf [i] = (short) (i * 257 + 3) ; return buf ; }

/* apply one action to the handle and to the expected state; returns the library's verdict (1 accepted) */
static int apply (SNDFILE *sf, const Container *c, const Action *a, Meta *m, int ch)
{	int r = 0 ;
	switch (a->kind)
	{	case K_STR :
			{	char *t = text_value (a->variant, NULL) ; int e ;
				INLIB (e = sf_set_string (sf, str_types [a->sub], t)) ;
				r = (e == 0) ;
				if (r) { free (m->str [a->sub]) ; m->str [a->sub] = t ; } else free (t) ;
				}
			break ;
		case K_BEXT : { SF_BROADCAST_INFO b ; make_bext (&b, a->variant) ; INLIB (r = sf_command (sf, SFC_SET_BROADCAST_INFO, &b, sizeof (b))) ; if (r) { m->bext = b ; m->have_bext = 1 ; } } break ;
		case K_CART : { SF_CART_INFO x ; make_cart (&x, a->variant) ; INLIB (r = sf_command (sf, SFC_SET_CART_INFO, &x, sizeof (x))) ; if (r) { m->cart = x ; m->have_cart = 1 ; } } break ;
		case K_CUE : { SF_CUES q ; make_cues (&q, a->variant, c) ; INLIB (r = sf_command (sf, SFC_SET_CUE, &q, sizeof (q))) ; if (r) { m->cues = q ; m->have_cue = 1 ; } } break ;
		case K_INST : { SF_INSTRUMENT in ; make_inst (&in, a->variant, c) ; INLIB (r = sf_command (sf, SFC_SET_INSTRUMENT, &in, sizeof (in))) ; if (r) { m->inst = in ; m->have_inst = 1 ; } } break ;
		case K_CHMAP : { int map [8], n ; make_chmap (map, a->variant, c, &n) ; if (n != ch) break ; INLIB (r = sf_command (sf, SFC_SET_CHANNEL_MAP_INFO, map, n * sizeof (int))) ; if (r) { memcpy (m->chmap, map, n * sizeof (int)) ; m->have_chmap = 1 ; } } break ;
		}
	return r ;
}

static int supported (const Container *c, const Action *a)
{	switch (a->kind)
	{	case K_STR : return (c->strmask >> str_types [a->sub]) & 1 ;
		case K_BEXT : return c->bext ; case K_CART : return c->cart ; case K_CUE : return c->cue ; case K_INST : return c->inst ; default : return c->chmap ;
		}
}

static int field_eq (const char *a, const char *b, size_t width)
{	/* fixed-width text fields: compare as strings limited to the width */
	return strncmp (a, b, width) == 0 ;
}

/* verify the re-opened file against the expected state; only kinds the container stores are compared */
static void verify (SNDFILE *sf, const Container *c, const Meta *m, int ch, const char *rs, const char *phase)
{	for (int i = 0 ; i < NSTR ; i++)
	{	const char *got ; char expect [600] ;
		if (! ((c->strmask >> str_types [i]) & 1) || ! m->str [i]) continue ;
		INLIB (got = sf_get_string (sf, str_types [i])) ;
		snprintf (expect, sizeof (expect), "%s", m->str [i]) ;
		if (str_types [i] == SF_STR_SOFTWARE)
		{	/* documented normalisation: library name and version appended */
			if (got == NULL || strncmp (got, m->str [i], strlen (m->str [i]) < 100 ? strlen (m->str [i]) : 100) != 0 || strstr (got, "libsndfile") == NULL)
				vl_violation (rt_sig ("%s|string-software", rs), "%s: software string set '%.40s...' read back '%.60s'", phase, m->str [i], got ? got : "(null)") ;
			continue ;
			}
		if (got == NULL) vl_violation (rt_sig ("%s|string-lost|%s", rs, str_names [i]), "%s: %s string (%zu bytes) not returned after re-open", phase, str_names [i], strlen (m->str [i])) ;
		else if (strcmp (got, expect) != 0)
			vl_violation (rt_sig ("%s|string-changed|%s", rs, str_names [i]), "%s: %s string of %zu bytes read back as %zu bytes ('%.30s' vs '%.30s')", phase, str_names [i], strlen (expect), strlen (got), expect, got) ;
		}
	if (c->bext && m->have_bext)
	{	SF_BROADCAST_INFO g ; int r ; memset (&g, 0, sizeof (g)) ;
		INLIB (r = sf_command (sf, SFC_GET_BROADCAST_INFO, &g, sizeof (g))) ;
		if (! r) vl_violation (rt_sig ("%s|bext-lost", rs), "%s: SFC_GET_BROADCAST_INFO failed", phase) ;
		else
		{	const SF_BROADCAST_INFO *e = &m->bext ; const char *bad = NULL ;
			if (! field_eq (g.description, e->description, sizeof (g.description))) bad = "description" ;
			else if (! field_eq (g.originator, e->originator, sizeof (g.originator))) bad = "originator" ;
			else if (! field_eq (g.originator_reference, e->originator_reference, sizeof (g.originator_reference))) bad = "originator_reference" ;
			else if (memcmp (g.origination_date, e->origination_date, 10) || memcmp (g.origination_time, e->origination_time, 8)) bad = "origination date/time" ;
			else if (g.time_reference_low != e->time_reference_low || g.time_reference_high != e->time_reference_high) bad = "time_reference" ;
			else if (memcmp (g.umid, e->umid, sizeof (g.umid))) bad = "umid" ;
			else if (g.loudness_value != e->loudness_value || g.loudness_range != e->loudness_range || g.max_true_peak_level != e->max_true_peak_level ||
						g.max_momentary_loudness != e->max_momentary_loudness || g.max_shortterm_loudness != e->max_shortterm_loudness) bad = "loudness" ;
			else
			{	/* coding history: CR/LF normalised text of the caller followed by the line libsndfile adds */
				char norm [600] ; int k = 0 ;
				for (unsigned i = 0 ; i < e->coding_history_size && e->coding_history [i] ; i++)
				{	char ch0 = e->coding_history [i] ;
					if (ch0 == '\r') { norm [k++] = '\r' ; norm [k++] = '\n' ; if (e->coding_history [i + 1] == '\n') i++ ; }
					else if (ch0 == '\n') { norm [k++] = '\r' ; norm [k++] = '\n' ; }
					else norm [k++] = ch0 ;
					}
				norm [k] = 0 ;
				if (strncmp (g.coding_history, norm, k) != 0) bad = "coding_history" ;
				}
			if (bad) vl_violation (rt_sig ("%s|bext-changed|%s", rs, bad), "%s: bext field %s differs after re-open", phase, bad) ;
			}
		}
	if (c->cart && m->have_cart)
	{	SF_CART_INFO g ; int r ; memset (&g, 0, sizeof (g)) ;
		INLIB (r = sf_command (sf, SFC_GET_CART_INFO, &g, sizeof (g))) ;
		if (! r) vl_violation (rt_sig ("%s|cart-lost", rs), "%s: SFC_GET_CART_INFO failed", phase) ;
		else
		{	const SF_CART_INFO *e = &m->cart ; const char *bad = NULL ;
#define CF(fld) if (! bad && ! field_eq (g.fld, e->fld, sizeof (g.fld))) bad = #fld ;
			CF (version) CF (title) CF (artist) CF (cut_id) CF (client_id) CF (category) CF (classification) CF (out_cue) CF (start_date) CF (start_time) CF (end_date) CF (end_time)
			CF (producer_app_id) CF (producer_app_version) CF (user_def) CF (url)
			if (! bad && g.level_reference != e->level_reference) bad = "level_reference" ;
			if (! bad && memcmp (g.post_timers, e->post_timers, sizeof (g.post_timers))) bad = "post_timers" ;
			if (! bad && strncmp (g.tag_text, e->tag_text, e->tag_text_size) != 0) bad = "tag_text" ;
			if (bad) vl_violation (rt_sig ("%s|cart-changed|%s", rs, bad), "%s: cart field %s differs after re-open", phase, bad) ;
			}
		}
	if (c->cue && m->have_cue)
	{	SF_CUES g ; int r ; uint32_t cnt = 0 ; memset (&g, 0, sizeof (g)) ;
		INLIB (sf_command (sf, SFC_GET_CUE_COUNT, &cnt, sizeof (cnt))) ;
		INLIB (r = sf_command (sf, SFC_GET_CUE, &g, sizeof (g))) ;
		if (m->cues.cue_count == 0) { if (r && g.cue_count != 0) vl_violation (rt_sig ("%s|cues-changed|count", rs), "%s: 0 cues set, %u returned", phase, g.cue_count) ; }
		else if (! r) vl_violation (rt_sig ("%s|cues-lost", rs), "%s: SFC_GET_CUE failed (%u cues set)", phase, m->cues.cue_count) ;
		else if (g.cue_count != m->cues.cue_count || cnt != m->cues.cue_count)
			vl_violation (rt_sig ("%s|cues-changed|count", rs), "%s: %u cues set, SFC_GET_CUE returns %u, SFC_GET_CUE_COUNT %u", phase, m->cues.cue_count, g.cue_count, cnt) ;
		else
			for (uint32_t i = 0 ; i < g.cue_count ; i++)
			{	const SF_CUE_POINT *e = &m->cues.cue_points [i], *p = &g.cue_points [i] ;
				if (p->indx != e->indx || p->position != e->position || p->fcc_chunk != e->fcc_chunk || p->chunk_start != e->chunk_start || p->block_start != e->block_start ||
						p->sample_offset != e->sample_offset || strcmp (p->name, e->name) != 0)
				{	vl_violation (rt_sig ("%s|cues-changed|point", rs), "%s: cue %u: set {%d,%u,0x%x,%d,%d,%u,'%s'} got {%d,%u,0x%x,%d,%d,%u,'%s'}", phase, i,
						e->indx, e->position, e->fcc_chunk, e->chunk_start, e->block_start, e->sample_offset, e->name, p->indx, p->position, p->fcc_chunk, p->chunk_start, p->block_start, p->sample_offset, p->name) ;
					break ;
					}
				}
		}
	if (c->inst && m->have_inst)
	{	SF_INSTRUMENT g ; int r ; memset (&g, 0, sizeof (g)) ;
		INLIB (r = sf_command (sf, SFC_GET_INSTRUMENT, &g, sizeof (g))) ;
		if (! r) vl_violation (rt_sig ("%s|instrument-lost", rs), "%s: SFC_GET_INSTRUMENT failed", phase) ;
		else if (memcmp (&g, &m->inst, sizeof (g)) != 0)
			vl_violation (rt_sig ("%s|instrument-changed", rs), "%s: instrument differs: basenote %d/%d detune %d/%d loops %d/%d gain %d/%d", phase, m->inst.basenote, g.basenote, m->inst.detune, g.detune, m->inst.loop_count, g.loop_count, m->inst.gain, g.gain) ;
		}
	if (c->chmap && m->have_chmap)
	{	int g [8], r ; memset (g, 0, sizeof (g)) ;
		INLIB (r = sf_command (sf, SFC_GET_CHANNEL_MAP_INFO, g, ch * sizeof (int))) ;
		if (! r) vl_violation (rt_sig ("%s|chanmap-lost", rs), "%s: SFC_GET_CHANNEL_MAP_INFO failed", phase) ;
		else if (memcmp (g, m->chmap, ch * sizeof (int)) != 0) vl_violation (rt_sig ("%s|chanmap-changed", rs), "%s: channel map differs after re-open (%d,%d,.. vs %d,%d,..)", phase, m->chmap [0], m->chmap [1], g [0], g [1]) ;
		}
}

/* what the same writes give without any metadata (lossy encodings do not return the input) */
static const short *plain_audio (const Container *c, int sub, int ch)
{	static short ref [NFRAMES * 8] ; static int key = -1 ; SF_INFO info ; SNDFILE *sf ;
	if (key == (c->major | sub | (ch << 28))) return ref ;
	md_reset (&dev) ; memset (&info, 0, sizeof (info)) ; info.format = c->major | sub ; info.channels = ch ; info.samplerate = 44100 ;
	sf = md_open (&dev, SFM_WRITE, &info) ; if (! sf) return audio (ch) ;
	vl_write (sf, T_SHORT, 1, audio (ch), NFRAMES) ; INLIB (sf_close (sf)) ;
	md_rewind (&dev) ; memset (&info, 0, sizeof (info)) ; sf = md_open (&dev, SFM_READ, &info) ; if (! sf) return audio (ch) ;
	vl_read (sf, T_SHORT, 1, ref, NFRAMES) ; INLIB (sf_close (sf)) ;
	key = c->major | sub | (ch << 28) ;
	return ref ;
}

/* run a script; late = number of actions applied after the first audio write (0: all before) */
static int c12_mode = SFM_WRITE ;	/* SFM_RDWR on a new, empty file is also "opened for writing" */

static void run_script (const Container *c, int sub, int ch, const Action *acts, int nacts, int late, const char *rs)
{	SF_INFO info ; SNDFILE *sf ; Meta m ; int rc, accepted [8] ; static short ref_audio [NFRAMES * 8], got_audio [NFRAMES * 8] ; short *au = audio (ch) ;
	memcpy (ref_audio, plain_audio (c, sub, ch), sizeof (ref_audio)) ;
	memset (&m, 0, sizeof (m)) ;
	md_reset (&dev) ; memset (&info, 0, sizeof (info)) ; info.format = c->major | sub ; info.channels = ch ; info.samplerate = 44100 ;
	sf = md_open (&dev, c12_mode, &info) ;
	if (! sf) { vl_note ("open refused: %s", sf_strerror (NULL)) ; return ; }
	for (int i = 0 ; i < nacts - late ; i++) { accepted [i] = apply (sf, c, &acts [i], &m, ch) ; vl_note ("set %s -> %d", kind_name [acts [i].kind], accepted [i]) ; }
	if (vl_write (sf, T_SHORT, 1, au, late ? 7 : NFRAMES) != (late ? 7 : NFRAMES)) vl_violation (rt_sig ("%s|write-failed", rs), "audio write failed after setting metadata: %s", sf_strerror (sf)) ;
	if (late)
	{	Meta before = m ; (void) before ;
		/* items set too late may be refused or ignored: they are applied to a scratch expectation and never required afterwards */
		{	Meta scratch ; memset (&scratch, 0, sizeof (scratch)) ;
			for (int i = nacts - late ; i < nacts ; i++) { accepted [i] = apply (sf, c, &acts [i], &scratch, ch) ; vl_note ("late set %s -> %d", kind_name [acts [i].kind], accepted [i]) ; }
			meta_free (&scratch) ;
			}
		/* an item set before the data and again after it: the early or the late value may come back, nothing is demanded of that item */
		for (int i = nacts - late ; i < nacts ; i++)
			switch (acts [i].kind)
			{	case K_STR : free (m.str [acts [i].sub]) ; m.str [acts [i].sub] = NULL ; break ;
				case K_BEXT : m.have_bext = 0 ; break ; case K_CART : m.have_cart = 0 ; break ; case K_CUE : m.have_cue = 0 ; break ;
				case K_INST : m.have_inst = 0 ; break ; default : m.have_chmap = 0 ; break ;
				}
		if (vl_write (sf, T_SHORT, 1, au + 7 * ch, NFRAMES - 7) != NFRAMES - 7) vl_violation (rt_sig ("%s|late-write-failed", rs), "audio write failed after a late metadata set: %s", sf_strerror (sf)) ;
		}
	INLIB (rc = sf_close (sf)) ;
	if (rc) vl_violation (rt_sig ("%s|close-nonzero", rs), "sf_close returned %d", rc) ;
	/* re-open */
	md_rewind (&dev) ; memset (&info, 0, sizeof (info)) ;
	sf = md_open (&dev, SFM_READ, &info) ;
	if (! sf) { vl_violation (rt_sig ("%s|reopen-failed", rs), "re-open failed: %s", sf_strerror (NULL)) ; meta_free (&m) ; return ; }
	/* audio must be untouched whatever happened to the metadata */
	memset (got_audio, 0x55, sizeof (got_audio)) ;
	if (info.frames != NFRAMES || vl_read (sf, T_SHORT, 1, got_audio, NFRAMES) != NFRAMES || memcmp (got_audio, ref_audio, NFRAMES * ch * 2) != 0)
	{	long d = rt_first_diff (got_audio, ref_audio, NFRAMES * ch, T_SHORT) ;
		vl_violation (rt_sig ("%s|audio-damaged%s", rs, late ? "-late" : ""), "after re-open: %lld frames (expected %d), first differing item %ld", (long long) info.frames, NFRAMES, d) ;
		}
	if (late)
	{	/* items set too late may be refused or ignored; the ones that were accepted before the data must survive */
		Meta early ; memset (&early, 0, sizeof (early)) ;
		/* rebuild the expectation from the early actions only when a late action touched the same kind; otherwise verify everything accepted */
		verify (sf, c, &m, ch, rs, "set-after-data") ;
		(void) early ;
		}
	else
		verify (sf, c, &m, ch, rs, "set-before-data") ;
	INLIB (sf_close (sf)) ;
	meta_free (&m) ;
}

static void run_c12 (void)
{	for (const Container *c = containers ; c->name ; c++)
	{	static const int subs [] = { SF_FORMAT_PCM_16, SF_FORMAT_FLOAT, SF_FORMAT_PCM_24, SF_FORMAT_ULAW, 0 } ;
		for (int si = 0 ; subs [si] ; si++)
		{	int sub = subs [si] ; char rs [64] ; SF_INFO probe ;
			memset (&probe, 0, sizeof (probe)) ; probe.format = c->major | sub ; probe.channels = 2 ; probe.samplerate = 44100 ;
			if (! sf_format_check (&probe)) continue ;
			snprintf (rs, sizeof (rs), "%s", c->name) ;
			/* (1) every single kind with every value, before the data and after the first write */
			for (int kind = 0 ; kind < K_NKINDS ; kind++)
			{	int nvar = kind == K_STR ? NTEXT : kind == K_BEXT ? 7 : kind == K_CART ? 6 : kind == K_CUE ? 5 : 4 ;
				if (si > 0 && kind != K_STR) nvar = 1 ;
				for (int sidx = 0 ; sidx < (kind == K_STR ? NSTR : 1) ; sidx++)
					for (int v = 0 ; v < nvar ; v++)
						for (int late = 0 ; late < 2 ; late++)
						{	Action a = { kind, sidx, v } ; int ch = 2, map [8] ;
							if (si > 0 && (v % 4) != 1) continue ;
							/* the software string is rewritten by the library (name and version appended, 127 characters in all): short one-line values only */
							if (kind == K_STR && str_types [sidx] == SF_STR_SOFTWARE && (v > 2 && v != 12 && v != 13)) continue ;
							if (kind == K_CHMAP) make_chmap (map, v, c, &ch) ;
							if (vl_case ("C12 single fmt=%s/%s kind=%s%s%s variant=%d when=%s", c->name, sub_name (sub), kind_name [kind], kind == K_STR ? ":" : "", kind == K_STR ? str_names [sidx] : "", v, late ? "after-data" : "before-data"))
							{	vl_root_count (c->name) ; run_script (c, sub, ch, &a, 1, late, rs) ; vl_end (supported (c, &a), 0) ; }
							}
				}
			if (si > 0) continue ;
			/* (2) all orders of any 3 of the 6 kinds, middle values */
			for (int a = 0 ; a < K_NKINDS ; a++) for (int b = 0 ; b < K_NKINDS ; b++) for (int d = 0 ; d < K_NKINDS ; d++)
			{	if (a == b || b == d || a == d) continue ;
				if (vl_case ("C12 order fmt=%s/%s kinds=%s,%s,%s", c->name, sub_name (sub), kind_name [a], kind_name [b], kind_name [d]))
				{	Action acts [3] = { { a, 0, 1 }, { b, 0, 1 }, { d, 0, 1 } } ; int ch = 2, map [8] ;
					if (a == K_CHMAP || b == K_CHMAP || d == K_CHMAP) make_chmap (map, 1, c, &ch) ;
					vl_root_count (c->name) ; run_script (c, sub, ch, acts, 3, 0, rs) ; vl_end (1, 0) ;
					}
				}
			/* (3) all ten strings together in two orders, plus replacement of an item */
			for (int ord = 0 ; ord < 2 ; ord++)
				if (vl_case ("C12 allstrings fmt=%s/%s order=%d", c->name, sub_name (sub), ord))
				{	Action acts [8] ; int n = 0 ;
					(void) acts ; (void) n ;
					{	Action all [NSTR + 2] ; int k = 0 ;
						for (int i = 0 ; i < NSTR ; i++) all [k++] = (Action) { K_STR, ord ? NSTR - 1 - i : i, str_types [ord ? NSTR - 1 - i : i] == SF_STR_SOFTWARE ? 1 : 2 + (i % 5) } ;
						/* run_script handles up to 8 accepted flags: split in two scripts */
						vl_root_count (c->name) ;
						run_script (c, sub, 2, all, 5, 0, rs) ; run_script (c, sub, 2, all + 5, 5, 0, rs) ;
						}
					vl_end (1, 0) ;
					}
			/* (4) an item set before the data and set again after the first write (shorter, equal, longer): the header of the finished file
			** may not move the audio, and the other item set before the data must survive */
			for (int kind = 0 ; kind < K_NKINDS ; kind++)
				for (int sidx = 0 ; sidx < (kind == K_STR ? NSTR : 1) ; sidx++)
				{	static const int sv [4] = { 0, 2, 3, 6 } ;	/* texts of 1, 3, 127, 256 bytes */
					int nv = kind == K_STR ? 4 : 3 ;
					if (kind == K_STR && str_types [sidx] == SF_STR_SOFTWARE) nv = 2 ;
					for (int ea = 0 ; ea < nv ; ea++) for (int la = 0 ; la < nv ; la++)
						if (vl_case ("C12 again fmt=%s/%s kind=%s%s%s early=%d late=%d", c->name, sub_name (sub), kind_name [kind], kind == K_STR ? ":" : "", kind == K_STR ? str_names [sidx] : "", ea, la))
						{	int other = (kind == K_STR && str_types [sidx] == SF_STR_TITLE) ? 1 : 0 ; int ch = 2, map [8] ;
							Action acts [3] = { { kind, sidx, kind == K_STR ? sv [ea] : ea }, { K_STR, other, 4 }, { kind, sidx, kind == K_STR ? sv [la] : la } } ;
							if (kind == K_CHMAP) make_chmap (map, ea, c, &ch) ;
							vl_root_count (c->name) ; run_script (c, sub, ch, acts, 3, 1, rs) ; vl_end (supported (c, &acts [0]), 0) ;
							}
					}
			/* (5) a new file created with SFM_RDWR: every kind, before the data and after the first write, and set again */
			for (int kind = 0 ; kind < K_NKINDS ; kind++)
				for (int sidx = 0 ; sidx < (kind == K_STR ? NSTR : 1) ; sidx++)
					for (int when = 0 ; when < 3 ; when++)
						if (vl_case ("C12 rdwr-new fmt=%s/%s kind=%s%s%s when=%s", c->name, sub_name (sub), kind_name [kind], kind == K_STR ? ":" : "", kind == K_STR ? str_names [sidx] : "", when == 0 ? "before-data" : when == 1 ? "after-data" : "again"))
						{	int other = (kind == K_STR && str_types [sidx] == SF_STR_TITLE) ? 1 : 0 ; int ch = 2, map [8] ; char rs2 [80] ;
							Action acts [3] = { { kind, sidx, kind == K_STR ? (str_types [sidx] == SF_STR_SOFTWARE ? 1 : 3) : 0 }, { K_STR, other, 4 }, { kind, sidx, 2 } } ;	/* 127 then 3 bytes of text (software: short values only, see above); shortest then longest variable part */
							if (kind == K_CHMAP) make_chmap (map, 0, c, &ch) ;
							snprintf (rs2, sizeof (rs2), "%s|rdwr-new", rs) ;
							vl_root_count (c->name) ; c12_mode = SFM_RDWR ;
							if (when == 0) run_script (c, sub, ch, acts, 2, 0, rs2) ; else if (when == 1) run_script (c, sub, ch, acts + 1, 2, 1, rs2) ; else run_script (c, sub, ch, acts, 3, 1, rs2) ;
							c12_mode = SFM_WRITE ; vl_end (supported (c, &acts [0]), 0) ;
							}
			if (vl_case ("C12 replace fmt=%s/%s", c->name, sub_name (sub)))
			{	Action acts [4] = { { K_STR, 0, 3 }, { K_BEXT, 0, 1 }, { K_STR, 0, 5 }, { K_BEXT, 0, 4 } } ;
				vl_root_count (c->name) ; run_script (c, sub, 2, acts, 4, 0, rs) ; vl_end (1, 0) ;
				}
			}
		}
}

void run_c13 (void) ;

void harness_run (void)
{	fmt_build () ; md_init (&dev) ;
	if (! strcmp (vl_opts.prop, "C12")) run_c12 () ;
	else if (! strcmp (vl_opts.prop, "C13")) run_c13 () ;
	else { fprintf (stderr, "h_meta: unknown property %s\n", vl_opts.prop) ; exit (3) ; }
}
