/* h_chunks.c - C13: custom chunks: any number set, all retrievable, audio untouched (linked into h_meta). */
#include "vlib.h"
#include "rt_common.h"

static MemDev cdev ;

#define NFR 23
#define NHEAD 10
typedef struct { char id [72] ; unsigned len ; unsigned char *data ; } Ck ;

#define NMAJ 8
static const int majors [NMAJ] = { SF_FORMAT_WAV, SF_FORMAT_WAVEX, SF_FORMAT_RF64, SF_FORMAT_AIFF, SF_FORMAT_CAF,
	SF_FORMAT_WAV | SF_ENDIAN_BIG, SF_FORMAT_AIFF | SF_ENDIAN_LITTLE, SF_FORMAT_CAF | SF_ENDIAN_LITTLE } ;	/* and the non-default byte orders */
static const char *mnames [NMAJ] = { "wav", "wavex", "rf64", "aiff", "caf", "rifx", "aifc-le", "caf-le" } ;

static int c13_sub = SF_FORMAT_PCM_16 ;	/* the thorough tier also walks other sample formats (PEAK / fact chunks next to the custom ones) */
static short c13_ref [NFR * 2] ; static int c13_ref_key = -1 ;

static short *audio (void) { static short buf [NFR * 2] ; for (int i = 0 ; i < NFR * 2 ; i++) buf [i] = (short) (i * 1021 + 5) ; return buf ; }

static void ck_make (Ck *c, const char *id, unsigned len, unsigned seed)
{	snprintf (c->id, sizeof (c->id), "%s", id) ; c->len = len ;
	c->data = malloc (len ? len : 1) ;		/* exact size: an over-read by the library is an ASan report */
	for (unsigned i = 0 ; i < len ; i++) c->data [i] = (unsigned char) (seed * 31 + i * 7 + 1) ;
}

static int set_chunk (SNDFILE *sf, const Ck *c)
{	SF_CHUNK_INFO ci ; int r ; memset (&ci, 0, sizeof (ci)) ;
	snprintf (ci.id, sizeof (ci.id), "%s", c->id) ; ci.id_size = (unsigned) strlen (c->id) ; ci.datalen = c->len ; ci.data = c->data ;
	INLIB (r = sf_set_chunk (sf, &ci)) ;
	return r ;
}

static void check_invariants (SNDFILE *sf, const char *rs, const char *when)
{	PeekState pk ; pk_get (sf, &pk, 0) ;
	if (pk.wchunks_used > pk.wchunks_count && pk.wchunks_count) vl_violation (rt_sig ("%s|wchunks-used>count", rs), "%s: wchunks.used %u > count %u", when, pk.wchunks_used, pk.wchunks_count) ;
	if (pk.rchunks_used > pk.rchunks_count && pk.rchunks_count) vl_violation (rt_sig ("%s|rchunks-used>count", rs), "%s: rchunks.used %u > count %u", when, pk.rchunks_used, pk.rchunks_count) ;
}

/* fetch chunk the iterator points at with a caller buffer of `bufsize` bytes (exact size, guarded) */
static int fetch (SF_CHUNK_ITERATOR *it, unsigned *size, unsigned char **data, long bufsize_mode, const char *rs)
{	SF_CHUNK_INFO ci ; int r ; GBuf g ; unsigned want ;
	memset (&ci, 0, sizeof (ci)) ;
	INLIB (r = sf_get_chunk_size (it, &ci)) ;
	if (r != 0) return r ;
	*size = ci.datalen ;
	if (ci.datalen > (1u << 20)) { if (data) *data = NULL ; return 0 ; }	/* a container chunk (e.g. RF64 'data' with its 32-bit placeholder size): not ours, do not fetch */
	want = bufsize_mode == -1 ? ci.datalen : bufsize_mode == -2 ? (ci.datalen ? ci.datalen - 1 : 0) : bufsize_mode == -3 ? ci.datalen + 1 : (unsigned) bufsize_mode ;
	gb_new (&g, 32, want, 32, 0xC3) ;
	ci.datalen = want ; ci.data = gb_ptr (&g) ;
	INLIB (r = sf_get_chunk_data (it, &ci)) ;
	if (gb_check (&g)) vl_violation (rt_sig ("%s|get-data-overrun", rs), "sf_get_chunk_data with a %u byte buffer (chunk %u bytes) wrote outside the buffer", want, *size) ;
	if (data)
	{	*data = malloc (want + 1) ; memcpy (*data, gb_ptr (&g), want) ; }
	gb_free (&g) ;
	return r ;
}

static const char *how_names [8] = { "short", "shortf", "int", "intf", "float", "floatf", "double", "doublef" } ;
/* script: nck chunks (set before audio unless late), optional metadata interleave; then verification */
static void chunk_case (int mi, Ck *cks, int nck, int interleave, int late, int bufmode, const char *family)
{	SF_INFO info ; SNDFILE *sf ; char rs [48] ; int rc, accepted [256], nacc = 0, head_ok = 1 ; static short got [NFR * 2] ;
	snprintf (rs, sizeof (rs), "%s|%s", mnames [mi], family) ;
	md_reset (&cdev) ; memset (&info, 0, sizeof (info)) ; info.format = majors [mi] | c13_sub ; info.channels = 2 ; info.samplerate = 44100 ;
	if (c13_ref_key != (majors [mi] | c13_sub))
	{	/* what the same audio reads back as from a file without custom chunks (lossy codecs): the differential reference */
		SF_INFO ri = info ; SNDFILE *r = md_open (&cdev, SFM_WRITE, &ri) ;
		if (! r) { vl_note ("open refused") ; return ; }
		vl_write (r, T_SHORT, 1, audio (), NFR) ; INLIB (sf_close (r)) ;
		md_rewind (&cdev) ; memset (&ri, 0, sizeof (ri)) ; r = md_open (&cdev, SFM_READ, &ri) ;
		if (! r || vl_read (r, T_SHORT, 1, c13_ref, NFR) != NFR) { vl_violation (rt_sig ("%s|reference-unreadable", rs), "the file without custom chunks does not read back") ; if (r) INLIB (sf_close (r)) ; return ; }
		INLIB (sf_close (r)) ; c13_ref_key = majors [mi] | c13_sub ; md_reset (&cdev) ;
		}
	sf = md_open (&cdev, SFM_WRITE, &info) ;
	if (! sf) { vl_note ("open refused") ; return ; }
	if (interleave & 1) INLIB (sf_set_string (sf, SF_STR_TITLE, "before chunks")) ;
	if (late)
	{	/* late = 1 + 2 * type + frames_variant for the eight typed writers, 9 = sf_write_raw: each of them must mark the file as holding audio */
		int how = late - 1 ; sf_count_t wr ;
		if (how == 8)
		{	short rawb [10] ; int swap ; memcpy (rawb, audio (), sizeof (rawb)) ;
			INLIB (swap = sf_command (sf, SFC_RAW_DATA_NEEDS_ENDSWAP, NULL, 0)) ;
			if (swap) for (int i = 0 ; i < 10 ; i++) rawb [i] = (short) (((rawb [i] & 0xff) << 8) | ((rawb [i] >> 8) & 0xff)) ;
			INLIB (wr = sf_write_raw (sf, rawb, sizeof (rawb))) ; wr /= 4 ;
			}
		else
		{	static int ib [10] ; static float fb [10] ; static double db [10] ; const short *a = audio () ; const void *src = a ; int type = how / 2, fv = how & 1 ;
			for (int i = 0 ; i < 10 ; i++) { ib [i] = a [i] * 65536 ; fb [i] = a [i] / 32768.0f ; db [i] = a [i] / 32768.0 ; }
			if (type == T_INT) src = ib ; else if (type == T_FLOAT) src = fb ; else if (type == T_DOUBLE) src = db ;
			wr = vl_write (sf, type, fv, src, fv ? 5 : 10) ; if (! fv) wr /= 2 ;
			}
		if (wr != 5) vl_violation (rt_sig ("%s|write-failed", rs), "audio write failed") ;
		}
	for (int i = 0 ; i < nck ; i++)
	{	int r = set_chunk (sf, &cks [i]) ;
		accepted [i] = (r == 0) ; if (r == 0) nacc ++ ;
		if (i < 4 || r != 0) vl_note ("set_chunk '%s' %u bytes -> %d", cks [i].id, cks [i].len, r) ;
		check_invariants (sf, rs, "after sf_set_chunk") ;
		if ((interleave & 2) && i == nck / 2) INLIB (sf_set_string (sf, SF_STR_ARTIST, "between chunks")) ;
		}
	if (interleave & 4) INLIB (sf_set_string (sf, SF_STR_COMMENT, "after chunks")) ;
	if (vl_write (sf, T_SHORT, 1, audio () + (late ? 10 : 0), late ? NFR - 5 : NFR) != (late ? NFR - 5 : NFR))
		vl_violation (rt_sig ("%s|write-failed%s", rs, late ? "-late" : ""), "audio write failed after sf_set_chunk: %s", sf_strerror (sf)) ;
	INLIB (rc = sf_close (sf)) ;
	if (rc) vl_violation (rt_sig ("%s|close-nonzero", rs), "sf_close returned %d", rc) ;

	md_rewind (&cdev) ; memset (&info, 0, sizeof (info)) ;
	sf = md_open (&cdev, SFM_READ, &info) ;
	if (! sf) { vl_violation (rt_sig ("%s|reopen-failed", rs), "%s", sf_strerror (NULL)) ; return ; }
	/* the first NHEAD frames now, the rest after all the chunk calls: fetching chunks must not move the audio read position */
	if (info.frames != NFR || vl_read (sf, T_SHORT, 1, got, late ? NFR : NHEAD) != (late ? NFR : NHEAD) || memcmp (got, c13_ref, (late ? NFR : NHEAD) * 2 * sizeof (short)) != 0)
	{	head_ok = 0 ; vl_violation (rt_sig ("%s|audio-damaged%s", rs, late ? "-late" : ""), "audio differs after re-open (frames %lld)", (long long) info.frames) ; }
	if ((interleave & 1))
	{	const char *t ; INLIB (t = sf_get_string (sf, SF_STR_TITLE)) ;
		if (! t || strcmp (t, "before chunks")) vl_violation (rt_sig ("%s|other-metadata-damaged", rs), "title string lost or changed next to custom chunks") ;
		}
	check_invariants (sf, rs, "after re-open") ;
	if (late)
	{	/* refused or ignored: the audio is intact (above) and none of the late chunks is in the file */
		for (int i = 0 ; i < nck ; i++)
		{	SF_CHUNK_INFO ci ; SF_CHUNK_ITERATOR *it ; memset (&ci, 0, sizeof (ci)) ; snprintf (ci.id, sizeof (ci.id), "%s", cks [i].id) ; ci.id_size = (unsigned) strlen (cks [i].id) ;
			INLIB (it = sf_get_chunk_iterator (sf, &ci)) ;
			if (it) { vl_violation (rt_sig ("%s|late-chunk-stored", rs), "chunk '%s' set after the audio (sf_set_chunk returned %s) is in the finished file", cks [i].id, accepted [i] ? "0" : "an error") ; break ; }
			}
		INLIB (sf_close (sf)) ; return ;
		}

	/* full iteration: the chunks we set must appear exactly once each, in order (the container's own chunks may be interleaved) */
	{	SF_CHUNK_ITERATOR *it ; int next = 0, visited = 0, guard = 0 ;
		INLIB (it = sf_get_chunk_iterator (sf, NULL)) ;
		while (it && guard ++ < 2000)
		{	unsigned size = 0 ; unsigned char *data = NULL ; SF_CHUNK_INFO ci ; int r ;
			memset (&ci, 0, sizeof (ci)) ;
			r = fetch (it, &size, &data, bufmode, rs) ;
			if (r != 0) vl_violation (rt_sig ("%s|iterate-error", rs), "chunk fetch during full iteration returned %d", r) ;
			else
			{	/* does it match the next expected chunk? ids are compared through a by-size query of the iterator's chunk */
				while (next < nck && ! accepted [next]) next ++ ;
				if (next < nck)
				{	const Ck *e = &cks [next] ; unsigned cmp = bufmode == -1 || bufmode == -3 ? e->len : bufmode == -2 ? (size ? (size - 1 < e->len ? size - 1 : e->len) : 0) : ((unsigned) bufmode < e->len ? (unsigned) bufmode : e->len) ;
					if (data && size >= e->len && size <= e->len + 3 && (cmp == 0 || memcmp (data, e->data, cmp) == 0) && (e->len > 0 || size == 0))
					{	/* pad bytes must not carry stale memory */
						if (bufmode == -1) for (unsigned k = e->len ; k < size ; k++) if (data [k] != 0) { vl_violation (rt_sig ("%s|pad-not-zero", rs), "chunk '%s' (%u bytes) padded to %u with non-zero byte 0x%02x", e->id, e->len, size, data [k]) ; break ; }
						next ++ ; visited ++ ;
						}
					}
				}
			free (data) ;
			INLIB (it = sf_next_chunk_iterator (it)) ;
			}
		if (visited != nacc)
			vl_violation (rt_sig ("%s|iterate-missing", rs), "%d chunks accepted by sf_set_chunk, full iteration found %d of them in order (of %d set)", nacc, visited, nck) ;
		if (nacc != nck) vl_violation (rt_sig ("%s|set-refused", rs), "%d of %d sf_set_chunk calls before the audio were refused", nck - nacc, nck) ;
		}
	/* by-id iteration for the first, middle and last id */
	for (int pick = 0 ; pick < 3 && nck > 0 ; pick++)
	{	const Ck *e = &cks [pick == 0 ? 0 : pick == 1 ? nck / 2 : nck - 1] ; SF_CHUNK_INFO ci ; SF_CHUNK_ITERATOR *it ; int expect = 0, found = 0, guard = 0 ;
		for (int i = 0 ; i < nck ; i++) if (accepted [i] && strcmp (cks [i].id, e->id) == 0) expect ++ ;
		memset (&ci, 0, sizeof (ci)) ; snprintf (ci.id, sizeof (ci.id), "%s", e->id) ; ci.id_size = (unsigned) strlen (e->id) ;
		INLIB (it = sf_get_chunk_iterator (sf, &ci)) ;
		while (it && guard ++ < 2000)
		{	unsigned size ; unsigned char *data = NULL ;
			if (fetch (it, &size, &data, -1, rs) == 0)
			{	/* the j-th visit is the j-th stored chunk of that id: same payload, not a neighbour's */
				int j = -1, seen = 0 ;
				for (int i = 0 ; i < nck && j < 0 ; i++) if (accepted [i] && strcmp (cks [i].id, e->id) == 0 && seen ++ == found) j = i ;
				if (j >= 0 && data && strlen (e->id) == 4 && (size < cks [j].len || size > cks [j].len + 3 || (cks [j].len && memcmp (data, cks [j].data, cks [j].len) != 0)))
					vl_violation (rt_sig ("%s|by-id-wrong-chunk", rs), "visit %d of the iteration by id '%s' delivered %u bytes that are not the payload of stored chunk %d (%u bytes)", found, e->id, size, j, cks [j].len) ;
				found ++ ;
				}
			free (data) ;
			INLIB (it = sf_next_chunk_iterator (it)) ;
			}
		/* reserved ids also match the container's own chunk of that name */
		if (found < expect || (found > expect && strcmp (e->id, "data") && strcmp (e->id, "fmt ") && strcmp (e->id, "LIST") && strcmp (e->id, "SSND") && strcmp (e->id, "COMM") && strcmp (e->id, "desc") && strcmp (e->id, "FORM")))
			vl_violation (rt_sig ("%s|by-id-count", rs), "iteration by id '%s' visited %d chunks, %d were stored", e->id, found, expect) ;
		}
	/* next after the last, and a second iterator request in a row */
	{	SF_CHUNK_ITERATOR *a, *b ; INLIB (a = sf_get_chunk_iterator (sf, NULL)) ; INLIB (b = sf_get_chunk_iterator (sf, NULL)) ;
		if (a && b) { int guard = 0 ; while (b && guard ++ < 2000) INLIB (b = sf_next_chunk_iterator (b)) ; }
		check_invariants (sf, rs, "after iterating") ;
		}
	{	sf_count_t n = vl_read (sf, T_SHORT, 1, got + NHEAD * 2, NFR - NHEAD) ;
		if (head_ok && (n != NFR - NHEAD || memcmp (got, c13_ref, sizeof (got)) != 0))
			vl_violation (rt_sig ("%s|audio-after-chunk-calls", rs), "the audio read after the chunk calls (frames %d..%d, %lld delivered) differs from what was written", NHEAD, NFR - 1, (long long) n) ;
		}
	INLIB (sf_close (sf)) ;
}

static void free_cks (Ck *c, int n) { for (int i = 0 ; i < n ; i++) free (c [i].data) ; }

void run_c13 (void)
{	static const unsigned plens [13] = { 0, 1, 2, 3, 4, 5, 7, 8, 255, 256, 257, 65535, 65536 } ; static const int pcounts [3] = { 1, 3, 21 } ;
	static const char *idsets [][4] = { { "a", "bb", "ccc", "dddd" }, { "dupl", "dupl", "dupl", "uniq" }, { "twin", "othr", "twin", "othr" }, { "data", "fmt ", "LIST", "SSND" }, { "COMM", "desc", "FORM", "junk" }, { "longerid", "evenlongerchunkid", "x", "longerid" } } ;
	md_init (&cdev) ;
	for (int mi = 0 ; mi < NMAJ ; mi++)
	{	/* every count 0..200 */
		for (int n = 0 ; n <= 200 ; n++)
			if (vl_case ("C13 count fmt=%s n=%d", mnames [mi], n))
			{	Ck *cks = calloc (n + 1, sizeof (Ck)) ;
				for (int i = 0 ; i < n ; i++) { char id [8] ; snprintf (id, sizeof (id), "k%03d", i % 1000) ; ck_make (&cks [i], id, 4, i) ; }
				vl_root_count (mnames [mi]) ; chunk_case (mi, cks, n, 0, 0, -1, "count") ; free_cks (cks, n) ; free (cks) ; vl_end (n > 0, n) ;
				}
		/* payload lengths x counts */
		for (int pl = 0 ; pl < 13 ; pl++) for (int pc = 0 ; pc < 3 ; pc++)
			if (vl_case ("C13 payload fmt=%s len=%u count=%d", mnames [mi], plens [pl], pcounts [pc]))
			{	int n = pcounts [pc] ; Ck *cks = calloc (n, sizeof (Ck)) ;
				for (int i = 0 ; i < n ; i++) { char id [8] ; snprintf (id, sizeof (id), "p%03d", i) ; ck_make (&cks [i], id, plens [pl], i + pl) ; }
				vl_root_count (mnames [mi]) ; chunk_case (mi, cks, n, 0, 0, -1, plens [pl] >= 65535 ? "payload>=64K" : "payload") ; free_cks (cks, n) ; free (cks) ; vl_end (1, pl) ;
				}
		/* id families */
		for (int is = 0 ; is < 6 ; is++)
			if (vl_case ("C13 ids fmt=%s set=%d", mnames [mi], is))
			{	Ck cks [4] ; for (int i = 0 ; i < 4 ; i++) ck_make (&cks [i], idsets [is][i], 6 + i, i + is) ;
				vl_root_count (mnames [mi]) ; chunk_case (mi, cks, 4, 0, 0, -1, is == 0 ? "ids-short" : is <= 2 ? "ids-dup" : is <= 4 ? "ids-reserved" : "ids-long") ; free_cks (cks, 4) ; vl_end (1, is) ;
				}
		/* interleaving with other metadata, all 8 patterns; set after audio; short / long caller buffers */
		for (int il = 0 ; il < 8 ; il++)
			if (vl_case ("C13 interleave fmt=%s pattern=%d", mnames [mi], il))
			{	Ck cks [5] ; for (int i = 0 ; i < 5 ; i++) { char id [8] ; snprintf (id, sizeof (id), "i%03d", i) ; ck_make (&cks [i], id, 9 + i, i) ; }
				vl_root_count (mnames [mi]) ; chunk_case (mi, cks, 5, il, 0, -1, "interleave") ; free_cks (cks, 5) ; vl_end (1, il) ;
				}
		for (int n = 1 ; n <= 3 ; n += 2) for (int big = 0 ; big < 2 ; big++)
		  for (int how = 0 ; how < 9 ; how++)
			if (vl_case (how == 1 ? "C13 after-audio fmt=%s n=%d len=%d" : "C13 after-audio fmt=%s n=%d len=%d first-write=%s", mnames [mi], n, big ? 6000 : 12, how == 8 ? "raw" : how_names [how]))
			{	Ck cks [3] ; for (int i = 0 ; i < n ; i++) { char id [8] ; snprintf (id, sizeof (id), "l%03d", i) ; ck_make (&cks [i], id, big ? 6000 : 12, i) ; }	/* 6000: more than the padding in front of CAF audio */
				vl_root_count (mnames [mi]) ; chunk_case (mi, cks, n, 0, 1 + how, -1, "after-audio") ; free_cks (cks, n) ; vl_end (1, n) ;
				}
		{	static const long modes [5] = { 0, 1, -2, -1, -3 } ;
			for (int bm = 0 ; bm < 5 ; bm++) for (int pl = 0 ; pl < 11 ; pl++)
				if (vl_case ("C13 getbuf fmt=%s bufmode=%ld len=%u", mnames [mi], modes [bm], plens [pl]))
				{	Ck cks [3] ; for (int i = 0 ; i < 3 ; i++) { char id [8] ; snprintf (id, sizeof (id), "g%03d", i) ; ck_make (&cks [i], id, plens [pl], i) ; }
					vl_root_count (mnames [mi]) ; chunk_case (mi, cks, 3, 0, 0, modes [bm], "getbuf") ; free_cks (cks, 3) ; vl_end (1, bm) ;
					}
			}
		if (! vl_opts.thorough) continue ;
		/* thorough: every payload length 0..520 (every alignment, both sides of 256 and 512) x 4 sample formats x {1,3} chunks */
		{	static const int subs [4] = { SF_FORMAT_PCM_16, SF_FORMAT_FLOAT, SF_FORMAT_ULAW, SF_FORMAT_PCM_24 } ; static const char *sn [4] = { "pcm16", "float", "ulaw", "pcm24" } ;
			for (int si = 0 ; si < 4 ; si++) for (unsigned len = 0 ; len <= 520 ; len++) for (int n = 1 ; n <= 3 ; n += 2)
				if (vl_case ("C13 T-payload fmt=%s sub=%s len=%u count=%d", mnames [mi], sn [si], len, n))
				{	Ck cks [3] ; for (int i = 0 ; i < n ; i++) { char id [8] ; snprintf (id, sizeof (id), "t%03d", i) ; ck_make (&cks [i], id, len, i + len) ; }
					c13_sub = subs [si] ; vl_root_count (mnames [mi]) ; chunk_case (mi, cks, n, 0, 0, -1, "payload") ; c13_sub = SF_FORMAT_PCM_16 ; free_cks (cks, n) ; vl_end (1, si * 1000 + len) ;
					}
			}
		/* thorough: chunks of two different lengths next to each other (A, B, A), all ordered pairs of the length alphabet below 64 KiB */
		for (int pa = 0 ; pa < 11 ; pa++) for (int pb = 0 ; pb < 11 ; pb++)
			if (vl_case ("C13 T-mixed fmt=%s lenA=%u lenB=%u", mnames [mi], plens [pa], plens [pb]))
			{	Ck cks [3] ; ck_make (&cks [0], "mixA", plens [pa], pa) ; ck_make (&cks [1], "mixB", plens [pb], pb + 50) ; ck_make (&cks [2], "mixA", plens [pa], pa + 100) ;
				vl_root_count (mnames [mi]) ; chunk_case (mi, cks, 3, 0, 0, -1, "mixed") ; free_cks (cks, 3) ; vl_end (1, pa * 11 + pb) ;
				}
		/* thorough: total header size: many chunks of a moderate size (the header buffer grows while the chunks are written;
		** it doubles up to 64 KiB and is then refused, and CAF pads the header to the next 4 KiB: 60000 bytes of chunks is where that cap is met) */
		{	static const int tcounts [4] = { 21, 60, 100, 200 } ; static const unsigned tlens [6] = { 64, 129, 256, 512, 1024, 4096 } ;
			for (int tc = 0 ; tc < 4 ; tc++) for (int tl = 0 ; tl < 6 ; tl++)
				if (vl_case ("C13 T-total fmt=%s count=%d len=%u", mnames [mi], tcounts [tc], tlens [tl]))
				{	int n = tcounts [tc] ; Ck *cks = calloc (n, sizeof (Ck)) ;
					for (int i = 0 ; i < n ; i++) { char id [8] ; snprintf (id, sizeof (id), "z%03d", i) ; ck_make (&cks [i], id, tlens [tl], i + tl) ; }
					vl_root_count (mnames [mi]) ; chunk_case (mi, cks, n, 0, 0, -1, (long) n * (tlens [tl] + 12) >= 60000 ? "total>=60K" : "total") ; free_cks (cks, n) ; free (cks) ; vl_end (1, tc * 6 + tl) ;
					}
			}
		}
}
