/* h_conv.c - C02 (sample-type conversion rules) and C20 (codec kernels vs published definitions).
** Exhaustive sweeps of finite code spaces through the real library (RAW container, in-memory device),
** compared with the references in ref_conv.c / ref_g711.c / ref_adpcm.c.
*/
#include "vlib.h"
#include "rt_common.h"
#include "ref.h"
#include <limits.h>

const char *harness_name = "h_conv" ;

enum { E_S8 = 0, E_U8, E_16, E_24, E_32, E_FLOAT, E_DOUBLE, E_ULAW, E_ALAW, E_N } ;
static const int enc_sub [E_N] = { SF_FORMAT_PCM_S8, SF_FORMAT_PCM_U8, SF_FORMAT_PCM_16, SF_FORMAT_PCM_24, SF_FORMAT_PCM_32, SF_FORMAT_FLOAT, SF_FORMAT_DOUBLE, SF_FORMAT_ULAW, SF_FORMAT_ALAW } ;
static const int enc_bytes [E_N] = { 1, 1, 2, 3, 4, 4, 8, 1, 1 } ;
static const int enc_w [E_N] = { 8, 8, 16, 24, 32, 0, 0, 16, 16 } ;	/* width of the linear value */
static const char *enc_name [E_N] = { "pcm_s8", "pcm_u8", "pcm_16", "pcm_24", "pcm_32", "float", "double", "ulaw", "alaw" } ;
static const int end_fmt [2] = { SF_ENDIAN_LITTLE, SF_ENDIAN_BIG } ;
static const char *end_name [2] = { "le", "be" } ;

MemDev dev ;

/* ------------------------------------------------------------------ raw byte helpers */

static void put_bytes (unsigned char *p, int nbytes, int big, uint64_t u)
{	for (int k = 0 ; k < nbytes ; k++)
		p [big ? nbytes - 1 - k : k] = (unsigned char) (u >> (8 * k)) ;
}

static uint64_t get_bytes (const unsigned char *p, int nbytes, int big)
{	uint64_t u = 0 ;
	for (int k = 0 ; k < nbytes ; k++)
		u |= (uint64_t) p [big ? nbytes - 1 - k : k] << (8 * k) ;
	return u ;
}

/* signed linear value -> stored code of an integer / G.711-free encoding */
static uint64_t int_code (int enc, int32_t v)
{	if (enc == E_U8) return (uint64_t) ((v + 128) & 0xFF) ;
	return (uint64_t) (uint32_t) v & (enc_bytes [enc] == 4 ? 0xFFFFFFFFu : ((1u << (8 * enc_bytes [enc])) - 1)) ;
}

static int32_t code_int (int enc, uint64_t code)
{	int w = 8 * enc_bytes [enc] ;
	if (enc == E_U8) return (int32_t) code - 128 ;
	return (int32_t) ((uint32_t) code << (32 - w)) >> (32 - w) ;
}

static SNDFILE *raw_open (int mode, int enc, int end)
{	SF_INFO info ; memset (&info, 0, sizeof (info)) ;
	info.format = SF_FORMAT_RAW | enc_sub [enc] | end_fmt [end] ; info.channels = 1 ; info.samplerate = 8000 ;
	return md_open (&dev, mode, &info) ;
}

/* opt_type: the caller's sample type of the transfer that follows. The normalisation setting of that type gets `norm`, the other one the
** opposite value: the two settings are independent, and a command that mixes them up (or one that runs a signal scan, as
** SFC_SET_SCALE_FLOAT_INT_READ does, and restores the wrong one) must not go unnoticed. */
static int opt_type = T_FLOAT ;

static void set_opts (SNDFILE *sf, int norm, int clip, int scale_read, int scale_write)
{	vl_inlib ++ ;
	sf_command (sf, SFC_SET_NORM_FLOAT, NULL, opt_type == T_DOUBLE ? ! norm : norm) ;
	sf_command (sf, SFC_SET_NORM_DOUBLE, NULL, opt_type == T_DOUBLE ? norm : ! norm) ;
	sf_command (sf, SFC_SET_CLIPPING, NULL, clip) ;
	if (scale_write >= 0) sf_command (sf, SFC_SET_SCALE_INT_FLOAT_WRITE, NULL, scale_write) ;
	if (scale_read > 0) sf_command (sf, SFC_SET_SCALE_FLOAT_INT_READ, NULL, scale_read) ;
	vl_inlib -- ;
}

/* ------------------------------------------------------------------ value sets */

static const uint32_t lows16 [5] = { 0, 1, 0x7FFF, 0x8000, 0xFFFF } ;
static const uint32_t lows8 [5] = { 0, 1, 0x7F, 0x80, 0xFF } ;

/* all linear values of an integer encoding's code space (or its lattice for 24/32 bit) */
static int32_t *int_values (int enc, long *n)
{	int32_t *v ; long k = 0 ;
	switch (enc)
	{	case E_S8 : case E_U8 :
			v = malloc (256 * sizeof (int32_t)) ;
			for (int c = -128 ; c < 128 ; c++) v [k++] = c ;
			break ;
		case E_16 :
			v = malloc (65536 * sizeof (int32_t)) ;
			for (int c = -32768 ; c < 32768 ; c++) v [k++] = c ;
			break ;
		case E_24 :
			if (vl_opts.thorough)
			{	v = malloc ((1 << 24) * sizeof (int32_t)) ;
				for (int c = - (1 << 23) ; c < (1 << 23) ; c++) v [k++] = c ;
				}
			else
			{	v = malloc (65536 * 5 * sizeof (int32_t)) ;
				for (int hi = -32768 ; hi < 32768 ; hi++) for (int l = 0 ; l < 5 ; l++) v [k++] = (int32_t) ((uint32_t) hi << 8 | lows8 [l]) ;
				}
			break ;
		default :
			v = malloc (65536 * 5 * sizeof (int32_t)) ;
			for (int hi = -32768 ; hi < 32768 ; hi++) for (int l = 0 ; l < 5 ; l++) v [k++] = (int32_t) ((uint32_t) hi << 16 | lows16 [l]) ;
			break ;
		}
	*n = k ; return v ;
}

/* boundary integers of width w: near zero, near every power of two, extremes */
static long kset (int w, int64_t *out)
{	long n = 0 ; int64_t lo = - ((int64_t) 1 << (w - 1)), hi = ((int64_t) 1 << (w - 1)) - 1 ;
	for (int64_t k = -70 ; k <= 70 ; k++) out [n++] = k ;
	for (int j = 6 ; j < w ; j++)
		for (int d = -2 ; d <= 2 ; d++)
		{	int64_t p = ((int64_t) 1 << j) + d ;
			if (p <= hi) out [n++] = p ;
			if (-p >= lo) out [n++] = -p ;
			}
	for (int d = 0 ; d < 5 ; d++) { out [n++] = hi - d ; out [n++] = lo + d ; }
	for (int t = 1 ; t < 200 ; t++)	/* spread */
	{	int64_t p = (int64_t) ((double) hi * t / 200.0 * 0.99731) ;
		out [n++] = p ; out [n++] = -p ;
		}
	return n ;
}

/* lattice of doubles (each exactly a float when for_float) exercising rounding of x*K for every width */
static double *float_lattice (int for_float, int norm, long *n)
{	double *x = malloc ((70000 + 4 * 1400 * 8) * sizeof (double)) ; long k = 0 ;
	/* all "top half" float bit patterns that are finite */
	for (uint32_t top = 0 ; top < 65536 ; top++)
	{	union { uint32_t u ; float f ; } c ; c.u = top << 16 ;
		if ((c.u & 0x7F800000u) == 0x7F800000u) continue ;
		x [k++] = c.f ;
		}
	static const int widths [4] = { 8, 16, 24, 32 } ;
	for (int wi = 0 ; wi < 4 ; wi++)
	{	int w = widths [wi] ; int64_t ks [1400] ; long nk = kset (w, ks) ;
		double kmax = (double) (((int64_t) 1 << (w - 1)) - 1), k2 = (double) ((int64_t) 1 << (w - 1)) ;
		for (long i = 0 ; i < nk ; i++)
		{	double cand [6] ; int nc = 0 ;
			if (norm)
			{	cand [nc++] = ks [i] / kmax ; cand [nc++] = (ks [i] + 0.5) / kmax ; cand [nc++] = (ks [i] - 0.5) / kmax ;
				cand [nc++] = ks [i] / k2 ; cand [nc++] = (ks [i] + 0.5) / k2 ; cand [nc++] = (ks [i] - 0.5) / k2 ;
				}
			else
			{	cand [nc++] = (double) ks [i] ; cand [nc++] = ks [i] + 0.5 ; cand [nc++] = ks [i] - 0.5 ; cand [nc++] = ks [i] + 0.25 ; }
			for (int c = 0 ; c < nc ; c++) x [k++] = for_float ? (double) (float) cand [c] : cand [c] ;
			}
		}
	{	double sp [] = { 1.0, -1.0, 0.0, -0.0, 1.0 - 0x1p-24, -1.0 + 0x1p-24, 1.0 + 0x1p-23, -1.0 - 0x1p-23, 1.0 - 0x1p-53, -1.0 + 0x1p-53, 0.5, -0.5, 2.0, -2.0, 1e10, -1e10, 1e-30, 1e-40 } ;
		for (unsigned i = 0 ; i < sizeof (sp) / sizeof (sp [0]) ; i++) x [k++] = for_float ? (double) (float) sp [i] : sp [i] ;
		}
	*n = k ; return x ;
}

static const char *sig (const char *fmt, ...)
{	static char b [160] ; va_list ap ;
	va_start (ap, fmt) ; vsnprintf (b, sizeof (b), fmt, ap) ; va_end (ap) ;
	return b ;
}

/* ------------------------------------------------------------------ C02: reading integer and G.711 files */

static void c02_read_int_file (int enc, int end, int type, int norm)
{	long n, bad = 0 ; int32_t *vals ; unsigned char *bytes ; SNDFILE *sf ; void *out ; int bw = enc_bytes [enc], w = enc_w [enc] ;
	uint64_t oh = VL_H0 ;

	if (enc == E_ULAW || enc == E_ALAW)
	{	n = 256 ; vals = malloc (256 * sizeof (int32_t)) ;
		for (int c = 0 ; c < 256 ; c++) vals [c] = enc == E_ULAW ? ref_ulaw_decode (c) : ref_alaw_decode (c) ;
		}
	else
		vals = int_values (enc, &n) ;
	bytes = malloc (n * bw) ;
	for (long i = 0 ; i < n ; i++)
		put_bytes (bytes + i * bw, bw, end, (enc == E_ULAW || enc == E_ALAW) ? (uint64_t) i : int_code (enc, vals [i])) ;
	md_set (&dev, bytes, n * bw) ;
	sf = raw_open (SFM_READ, enc, end) ;
	if (! sf) { vl_violation (sig ("read|%s|open-failed", enc_name [enc]), "%s", sf_strerror (NULL)) ; goto done ; }
	opt_type = type ; set_opts (sf, norm, 0, 1, -1) ;	/* SFC_SET_SCALE_FLOAT_INT_READ is about float files: on an integer file it changes nothing */
	out = malloc (n * 8) ;
	if (vl_read (sf, type, 0, out, n) != n)
		vl_violation (sig ("read|%s|%s|short-read", enc_name [enc], type_names [type]), "could not read %ld items", n) ;
	else
		for (long i = 0 ; i < n ; i++)
		{	int ok = 1 ; char exp [64], got [64] ;
			switch (type)
			{	case T_SHORT : { short e = ref_int_to_short (w, vals [i]), g = ((short *) out) [i] ; ok = e == g ; snprintf (exp, 64, "%d", e) ; snprintf (got, 64, "%d", g) ; } break ;
				case T_INT : { int e = ref_int_to_int (w, vals [i]), g = ((int *) out) [i] ; ok = e == g ; snprintf (exp, 64, "%d", e) ; snprintf (got, 64, "%d", g) ; } break ;
				case T_FLOAT : { float e = ref_int_to_float (w, vals [i], norm), g = ((float *) out) [i] ; ok = memcmp (&e, &g, 4) == 0 ; snprintf (exp, 64, "%a", e) ; snprintf (got, 64, "%a", g) ; } break ;
				case T_DOUBLE : { double e = ref_int_to_double (w, vals [i], norm), g = ((double *) out) [i] ; ok = memcmp (&e, &g, 8) == 0 ; snprintf (exp, 64, "%a", e) ; snprintf (got, 64, "%a", g) ; } break ;
				}
			if (! ok && bad ++ == 0)
				vl_violation (sig ("read|%s|%s|norm%d|value", enc_name [enc], type_names [type], norm), "stored value %d (item %ld, %s): expected %s got %s", vals [i], i, end_name [end], exp, got) ;
			}
	oh = vl_hash (out, n * type_size [type], oh) ;
	free (out) ;
	INLIB (sf_close (sf)) ;
done :
	vl_count_extra (0, n) ;
	free (vals) ; free (bytes) ;
	vl_end (1, oh) ;
}

/* ------------------------------------------------------------------ C02: writing integer and G.711 files */

#define G711_NX 12
static const double g711_extra [G711_NX] = { 1.0001, 1.25, 1.5, 3.0, 70000.0, 1e10, -1.0001, -1.25, -1.5, -3.0, -70000.0, -1e10 } ;

static void c02_write_int_file (int enc, int end, int type, int norm, int clip)
{	int bw = enc_bytes [enc], w = enc_w [enc], g711 = (enc == E_ULAW || enc == E_ALAW) ; long n = 0, bad = 0, skipped = 0, ngrid = 0 ;
	void *in = NULL ; double *lat = NULL ; SNDFILE *sf ; uint64_t oh = VL_H0 ;

	switch (type)
	{	case T_SHORT :
			n = 65536 ; in = malloc (n * 2) ;
			for (long i = 0 ; i < n ; i++) ((short *) in) [i] = (short) (i - 32768) ;
			break ;
		case T_INT :
			n = 65536 * 5 ; in = malloc (n * 4) ;
			for (long i = 0 ; i < n ; i++) ((int *) in) [i] = (int) (((uint32_t) (i / 5 - 32768) << 16) | lows16 [i % 5]) ;
			break ;
		case T_FLOAT : case T_DOUBLE :
			if (g711)
			{	/* inputs on the codec's own index grid (mu-law: s = 4k, 16384 inputs; A-law: s = 16k, 4096 inputs), which reach
				** every entry of the encode tables and on which the point of rounding cannot matter */
				int step = enc == E_ULAW ? 4 : 16 ;
				n = 65536 / step ; lat = malloc ((n + G711_NX) * sizeof (double)) ;
				for (long i = 0 ; i < n ; i++)
				{	int s = (int) (i - n / 2) * step ;
					double x = norm ? (double) s / 32767.0 : (double) s ;
					lat [i] = type == T_FLOAT ? (double) (float) x : x ;
					}
				/* and inputs beyond full scale (the encode tables end there): with clipping they saturate, without it the value is
				** unspecified - but the call must stay inside the tables either way (ASan) */
				ngrid = n ;
				for (int k = 0 ; k < G711_NX ; k++)
				{	double x = g711_extra [k] * (norm ? 1.0 : 32767.0) ;
					lat [n + k] = type == T_FLOAT ? (double) (float) x : x ;
					}
				n += G711_NX ;
				}
			else
				lat = float_lattice (type == T_FLOAT, norm, &n) ;
			in = malloc (n * 8) ;
			for (long i = 0 ; i < n ; i++)
				if (type == T_FLOAT) ((float *) in) [i] = (float) lat [i] ; else ((double *) in) [i] = lat [i] ;
			break ;
		}
	md_reset (&dev) ;
	sf = raw_open (SFM_WRITE, enc, end) ;
	if (! sf) { vl_violation (sig ("write|%s|open-failed", enc_name [enc]), "%s", sf_strerror (NULL)) ; goto done ; }
	opt_type = type ; set_opts (sf, norm, clip, 0, -1) ;
	if (vl_write (sf, type, 0, in, n) != n)
		vl_violation (sig ("write|%s|%s|short-write", enc_name [enc], type_names [type]), "could not write %ld items", n) ;
	INLIB (sf_close (sf)) ;
	if (dev.len != n * bw)
	{	vl_violation (sig ("write|%s|%s|length", enc_name [enc], type_names [type]), "file has %lld bytes for %ld items", (long long) dev.len, n) ; goto done ; }
	for (long i = 0 ; i < n ; i++)
	{	uint64_t code = get_bytes (dev.data + i * bw, bw, end) ; int ok = 1 ; char exp [80] = "" ;
		if (g711)
		{	int s ; unsigned e ;
			switch (type)
			{	case T_SHORT : s = ((short *) in) [i] ; break ;
				case T_INT :
					/* compared where the short and int entries must agree (s << 16); with low-order bits set the point
					** of truncation (32-bit magnitude vs. 16-bit value) is not documented */
					if (((int *) in) [i] & 0xFFFF) { skipped ++ ; continue ; }
					s = ((int *) in) [i] >> 16 ; break ;
				default :
					if (i >= ngrid)
					{	if (! clip) { skipped ++ ; continue ; }	/* beyond full scale without clipping: unspecified */
						s = g711_extra [i - ngrid] > 0 ? 32767 : -32768 ;
						}
					else s = (int) (i - ngrid / 2) * (enc == E_ULAW ? 4 : 16) ;
					break ;
				}
			e = enc == E_ULAW ? ref_ulaw_encode (s) : ref_alaw_encode (s) ;
			ok = (e == code) ; snprintf (exp, 80, "code 0x%02x (linear %d)", e, s) ;
			}
		else
		{	int32_t got = code_int (enc, code) ;
			switch (type)
			{	case T_SHORT : { int32_t e = ref_short_to_int (w, ((short *) in) [i]) ; ok = e == got ; snprintf (exp, 80, "%d", e) ; } break ;
				case T_INT : { int32_t e = ref_int_to_stored (w, ((int *) in) [i]) ; ok = e == got ; snprintf (exp, 80, "%d", e) ; } break ;
				default :
					if (clip)
					{	int64_t lo, hi ;
						if (type == T_FLOAT) ref_float_to_int_clip (w, ((float *) in) [i], norm, &lo, &hi) ;
						else ref_double_to_int_clip (w, ((double *) in) [i], norm, &lo, &hi) ;
						ok = got >= lo && got <= hi ; snprintf (exp, 80, "[%lld, %lld]", (long long) lo, (long long) hi) ;
						}
					else
					{	int in_range ; int64_t e ;
						if (type == T_FLOAT) e = ref_float_to_int (w, ((float *) in) [i], norm, &in_range) ;
						else e = ref_double_to_int (w, ((double *) in) [i], norm, &in_range) ;
						if (! in_range) { skipped ++ ; continue ; }	/* out of range without clipping: unspecified */
						ok = e == got ; snprintf (exp, 80, "%lld", (long long) e) ;
						}
					break ;
				}
			if (! ok) { char t [40] ; snprintf (t, 40, " got %d", got) ; strncat (exp, t, 79 - strlen (exp)) ; }
			}
		if (! ok && bad ++ == 0)
			vl_violation (sig ("write|%s|%s|norm%dclip%d|value", enc_name [enc], type_names [type], norm, clip), "input %s (item %ld, %s): expected %s, stored code 0x%llx",
				rt_fmt_item (in, type, i, 0), i, end_name [end], exp, (unsigned long long) code) ;
		}
	oh = md_hash (&dev) ;
done :
	vl_count_extra (0, n - skipped) ;
	free (in) ; free (lat) ;
	vl_end (1, oh) ;
}

/* ------------------------------------------------------------------ C02: float / double files */

static void c02_float_file_write (int enc, int end, int type, int scale)
{	int bw = enc_bytes [enc] ; long n = 0, bad = 0 ; void *in = NULL ; double *lat = NULL ; SNDFILE *sf ; uint64_t oh = VL_H0 ;
	switch (type)
	{	case T_SHORT : n = 65536 ; in = malloc (n * 2) ; for (long i = 0 ; i < n ; i++) ((short *) in) [i] = (short) (i - 32768) ; break ;
		case T_INT : n = 65536 * 5 ; in = malloc (n * 4) ; for (long i = 0 ; i < n ; i++) ((int *) in) [i] = (int) (((uint32_t) (i / 5 - 32768) << 16) | lows16 [i % 5]) ; break ;
		default :
			lat = float_lattice (type == T_FLOAT, 1, &n) ; in = malloc (n * 8) ;
			for (long i = 0 ; i < n ; i++) if (type == T_FLOAT) ((float *) in) [i] = (float) lat [i] ; else ((double *) in) [i] = lat [i] ;
			break ;
		}
	md_reset (&dev) ;
	sf = raw_open (SFM_WRITE, enc, end) ;
	if (! sf) { vl_violation (sig ("fwrite|%s|open-failed", enc_name [enc]), "%s", sf_strerror (NULL)) ; goto done ; }
	opt_type = type ; set_opts (sf, 1, 0, 0, scale) ;
	if (vl_write (sf, type, 0, in, n) != n) vl_violation (sig ("fwrite|%s|%s|short-write", enc_name [enc], type_names [type]), "could not write %ld items", n) ;
	INLIB (sf_close (sf)) ;
	if (dev.len != n * bw) { vl_violation (sig ("fwrite|%s|%s|length", enc_name [enc], type_names [type]), "file has %lld bytes for %ld items", (long long) dev.len, n) ; goto done ; }
	for (long i = 0 ; i < n ; i++)
	{	uint64_t code = get_bytes (dev.data + i * bw, bw, end), ecode ; double e ;
		switch (type)
		{	case T_SHORT : e = scale ? (double) ((short *) in) [i] / 32768.0 : (double) ((short *) in) [i] ; break ;
			case T_INT : e = scale ? (double) ((int *) in) [i] / 2147483648.0 : (double) ((int *) in) [i] ; break ;
			case T_FLOAT : e = ((float *) in) [i] ; break ;
			default : e = ((double *) in) [i] ; break ;
			}
		if (enc == E_FLOAT) { union { float f ; uint32_t u ; } c ; c.f = (float) e ; ecode = c.u ; }
		else { union { double d ; uint64_t u ; } c ; c.d = e ; ecode = c.u ; }
		if (ecode != code && bad ++ == 0)
			vl_violation (sig ("fwrite|%s|%s|scale%d|value", enc_name [enc], type_names [type], scale), "input %s (item %ld, %s): expected bits 0x%llx (%a), stored 0x%llx",
				rt_fmt_item (in, type, i, 0), i, end_name [end], (unsigned long long) ecode, e, (unsigned long long) code) ;
		}
	oh = md_hash (&dev) ;
done :
	vl_count_extra (0, n) ;
	free (in) ; free (lat) ;
	vl_end (1, oh) ;
}

static int cmp_double (const void *a, const void *b) { double x = *(const double *) a, y = *(const double *) b ; return x < y ? -1 : x > y ; }

static void c02_float_file_read (int enc, int end, int type, int clip, int scale)
{	int bw = enc_bytes [enc] ; long n = 0, bad = 0, m = 0, skipped = 0 ; double *lat ; unsigned char *bytes ; SNDFILE *sf ; void *out ; uint64_t oh = VL_H0 ;
	lat = float_lattice (enc == E_FLOAT, 0, &n) ;
	/* unscaled reads: keep values an int can hold unless clipping; scaled reads: a sorted signal in [-0.73, 0.61] */
	if (scale)
	{	m = 0 ;
		for (long i = 0 ; i < n ; i++) if (lat [i] == lat [i] && lat [i] >= -0.73 && lat [i] <= 0.61) lat [m++] = lat [i] ;
		lat [m++] = enc == E_FLOAT ? (double) -0.73f : -0.73 ;
		n = m ; qsort (lat, n, sizeof (double), cmp_double) ;
		}
	bytes = malloc (n * bw) ;
	for (long i = 0 ; i < n ; i++)
	{	if (enc == E_FLOAT) { union { float f ; uint32_t u ; } c ; c.f = (float) lat [i] ; put_bytes (bytes + i * bw, 4, end, c.u) ; }
		else { union { double d ; uint64_t u ; } c ; c.d = lat [i] ; put_bytes (bytes + i * bw, 8, end, c.u) ; }
		}
	md_set (&dev, bytes, n * bw) ;
	sf = raw_open (SFM_READ, enc, end) ;
	if (! sf) { vl_violation (sig ("fread|%s|open-failed", enc_name [enc]), "%s", sf_strerror (NULL)) ; goto done ; }
	opt_type = type ; set_opts (sf, 1, clip, scale, -1) ;
	out = malloc (n * 8 + 8) ;
	if (vl_read (sf, type, 0, out, n) != n)
		vl_violation (sig ("fread|%s|%s|short-read", enc_name [enc], type_names [type]), "could not read %ld items", n) ;
	else if (type == T_FLOAT || type == T_DOUBLE)
	{	for (long i = 0 ; i < n ; i++)
		{	int ok ;
			if (type == T_FLOAT) { float e = (float) lat [i], g = ((float *) out) [i] ; ok = memcmp (&e, &g, 4) == 0 ; }
			else { double e = lat [i], g = ((double *) out) [i] ; ok = memcmp (&e, &g, 8) == 0 ; }
			if (! ok && bad ++ == 0)
				vl_violation (sig ("fread|%s|%s|value", enc_name [enc], type_names [type]), "stored %a (item %ld, %s): got %s", lat [i], i, end_name [end], rt_fmt_item (out, type, i, 0)) ;
			}
		}
	else if (! scale)
	{	double lim_hi = type == T_SHORT ? 32767.0 : 2147483647.0, lim_lo = type == T_SHORT ? -32768.0 : -2147483648.0 ;
		for (long i = 0 ; i < n ; i++)
		{	double x = lat [i], r ; int64_t e, g = type == T_SHORT ? ((short *) out) [i] : ((int *) out) [i] ;
			r = enc == E_FLOAT ? (double) rintf ((float) x) : rint (x) ;
			if (r > lim_hi || r < lim_lo)
			{	if (! clip) { skipped ++ ; continue ; }
				e = r > 0 ? (int64_t) lim_hi : (int64_t) lim_lo ;
				}
			else e = (int64_t) r ;
			if (e != g && bad ++ == 0)
				vl_violation (sig ("fread|%s|%s|clip%d|value", enc_name [enc], type_names [type], clip), "stored %a (item %ld, %s): expected %lld got %lld", x, i, end_name [end], (long long) e, (long long) g) ;
			}
		}
	else
	{	/* SFC_SET_SCALE_FLOAT_INT_READ: factor undocumented; assert what any correct scaling satisfies */
		double full = type == T_SHORT ? 32767.0 : 2147483647.0 ; int64_t prev = INT64_MIN, gmax = 0 ;
		for (long i = 0 ; i < n ; i++)
		{	int64_t g = type == T_SHORT ? ((short *) out) [i] : ((int *) out) [i] ; double x = lat [i] ;
			if (((x > 0 && g < 0) || (x < 0 && g > 0)) && bad ++ == 0)
				vl_violation (sig ("fread|%s|%s|scaled|sign", enc_name [enc], type_names [type]), "stored %a read as %lld", x, (long long) g) ;
			if (g < prev && bad ++ == 0)
				vl_violation (sig ("fread|%s|%s|scaled|monotonic", enc_name [enc], type_names [type]), "stored %a read as %lld after %lld for a smaller value", x, (long long) g, (long long) prev) ;
			prev = g ;
			if (llabs (g) > gmax) gmax = llabs (g) ;
			}
		if ((double) gmax < 0.99 * full)
			vl_violation (sig ("fread|%s|%s|scaled|fullscale", enc_name [enc], type_names [type]), "file maximum 0.73 maps to %lld (< 99%% of %g)", (long long) gmax, full) ;
		}
	oh = vl_hash (out, n * type_size [type], oh) ;
	free (out) ;
	INLIB (sf_close (sf)) ;
done :
	vl_count_extra (0, n - skipped) ;
	free (lat) ; free (bytes) ;
	vl_end (1, oh) ;
}

/* short and int reads of a scaled float file must agree to one 16-bit LSB */
static void c02_float_file_scaled_agree (int enc, int end)
{	long n = 2001 ; unsigned char *bytes = malloc (n * 8) ; int bw = enc_bytes [enc] ; short *s = malloc (n * 2) ; int *iv = malloc (n * 4) ; SNDFILE *sf ;
	for (long i = 0 ; i < n ; i++)
	{	double x = (i - 1000) / 1370.0 ;
		if (enc == E_FLOAT) { union { float f ; uint32_t u ; } c ; c.f = (float) x ; put_bytes (bytes + i * bw, 4, end, c.u) ; }
		else { union { double d ; uint64_t u ; } c ; c.d = x ; put_bytes (bytes + i * bw, 8, end, c.u) ; }
		}
	md_set (&dev, bytes, n * bw) ; sf = raw_open (SFM_READ, enc, end) ; set_opts (sf, 1, 0, 1, -1) ; vl_read (sf, T_SHORT, 0, s, n) ; INLIB (sf_close (sf)) ;
	md_set (&dev, bytes, n * bw) ; sf = raw_open (SFM_READ, enc, end) ; set_opts (sf, 1, 0, 1, -1) ; vl_read (sf, T_INT, 0, iv, n) ; INLIB (sf_close (sf)) ;
	for (long i = 0 ; i < n ; i++)
		if (abs ((iv [i] >> 16) - s [i]) > 3)
		{	vl_violation (sig ("fread|%s|scaled|short-vs-int", enc_name [enc]), "item %ld: short %d, int %d (>>16 = %d)", i, s [i], iv [i], iv [i] >> 16) ; break ; }
	vl_count_extra (0, 2 * n) ;
	free (bytes) ; free (s) ; free (iv) ;
	vl_end (1, 7) ;
}

/* ------------------------------------------------------------------ C02: every other container installs the same rules */

static int enc_of_sub (int sub)
{	for (int e = 0 ; e < E_N ; e++) if (enc_sub [e] == sub) return e ;
	return -1 ;
}

/* every encoding's float / double write path with inputs beyond full scale and non-finite ones: what is stored without clipping is
** unspecified, but the call accepts the items, stays inside the codec's tables and buffers (ASan) and the file closes and re-opens */
static void c02_wild (const Fmt *f, int type, int norm, int clip)
{	static const double wild [] = { 1.0001, 1.5, 3.0, 70000.0, 1e10, 1e38, -1.0001, -1.5, -3.0, -70000.0, -1e10, -1e38, 0.25, -0.25 } ;
	enum { NW = sizeof (wild) / sizeof (wild [0]) } ; float fb [3 * NW + 8] ; double db [3 * NW + 8] ; int n = 0, ch = 1, B ; SF_INFO info ; SNDFILE *sf ; sf_count_t w ; long items ;
	for (int rep = 0 ; rep < 3 ; rep++) for (int k = 0 ; k < NW ; k++) { db [n] = wild [k] * (norm ? 1.0 : 32767.0) ; fb [n] = (float) db [n] ; n ++ ; }
	fb [n] = NAN ; db [n++] = NAN ; fb [n] = INFINITY ; db [n++] = INFINITY ; fb [n] = - INFINITY ; db [n++] = - INFINITY ; fb [n] = 0 ; db [n++] = 0 ;
	md_reset (&dev) ; rt_info (&info, f, ch, fmt_default_rate (f)) ;
	sf = md_open (&dev, SFM_WRITE, &info) ;
	if (! sf) { vl_note ("open refused") ; vl_end (0, 0) ; return ; }
	opt_type = type ; set_opts (sf, norm, clip, 0, -1) ;
	B = fmt_block (f, ch, fmt_default_rate (f)) ; items = n ; (void) B ;
	w = type == T_FLOAT ? vl_write (sf, T_FLOAT, 0, fb, items) : vl_write (sf, T_DOUBLE, 0, db, items) ;
	if (w != items) vl_violation (sig ("wild|%s|%s|short-write", rt_fam (f), type_names [type]), "write of %ld items beyond full scale accepted %lld", items, (long long) w) ;
	INLIB (sf_close (sf)) ;
	md_rewind (&dev) ; rt_info_read (&info, f, ch, fmt_default_rate (f)) ; sf = md_open (&dev, SFM_READ, &info) ;
	if (! sf) vl_violation (sig ("wild|%s|%s|reopen-failed", rt_fam (f), type_names [type]), "%s", sf_strerror (NULL)) ;
	else { short back [3 * NW + 64] ; vl_read (sf, T_SHORT, 0, back, n) ; INLIB (sf_close (sf)) ; }
	vl_end (1, md_hash (&dev)) ;
}

static void c02_cross (const Fmt *f, int wtype)
{	int enc = enc_of_sub (f->format & SF_FORMAT_SUBMASK), w = enc_w [enc], n = 0 ; short sv [3000] ; SF_INFO info ; SNDFILE *sf ; void *in, *out ; long bad = 0 ; uint64_t oh = VL_H0 ;
	for (int s = -520 ; s <= 520 ; s++) sv [n++] = (short) s ;
	for (int j = 10 ; j < 15 ; j++) for (int d = -2 ; d <= 2 ; d++) { sv [n++] = (short) ((1 << j) + d) ; sv [n++] = (short) (- (1 << j) + d) ; }
	for (int d = 0 ; d < 40 ; d++) { sv [n++] = (short) (32767 - d) ; sv [n++] = (short) (-32768 + d) ; }
	for (int t = 0 ; t < 1500 && n < 2990 ; t++) sv [n++] = (short) ((t * 7919) % 65536 - 32768) ;
	if (wtype == T_FLOAT) for (int i = 0 ; i < n ; i++) if (sv [i] == -32768) sv [i] = -32767 ;	/* keep x * K in range */

	in = malloc (n * 8) ; out = malloc (n * 8) ;
	for (int i = 0 ; i < n ; i++)
		if (wtype == T_SHORT) ((short *) in) [i] = sv [i] ; else ((float *) in) [i] = (float) sv [i] / 32768.0f ;
	md_reset (&dev) ;
	rt_info (&info, f, 1, fmt_default_rate (f)) ;
	sf = md_open (&dev, SFM_WRITE, &info) ;
	if (! sf) { vl_note ("open refused") ; free (in) ; free (out) ; vl_end (0, 1) ; return ; }
	if (vl_write (sf, wtype, 0, in, n) != n) vl_violation (sig ("cross|%s|short-write", rt_fam (f)), "short write") ;
	INLIB (sf_close (sf)) ;
	for (int rtype = 0 ; rtype < T_NTYPES ; rtype++)
	{	SF_INFO ri ; md_rewind (&dev) ; memset (&ri, 0, sizeof (ri)) ;
		sf = md_open (&dev, SFM_READ, &ri) ;
		if (! sf) { vl_violation (sig ("cross|%s|reopen", rt_fam (f)), "%s", sf_strerror (NULL)) ; break ; }
		if (vl_read (sf, rtype, 0, out, n) != n) vl_violation (sig ("cross|%s|short-read", rt_fam (f)), "short read") ;
		else
			for (int i = 0 ; i < n ; i++)
			{	int ok = 1 ; int32_t v = 0 ; double fx = 0 ; int in_range = 1 ;
				/* composite reference: stored = ref_write (input) ; result = ref_read (stored) */
				if (enc == E_ULAW || enc == E_ALAW)
				{	int s = wtype == T_SHORT ? sv [i] : (int) lrintf (((float *) in) [i] * 32767.0f) ;
					if (wtype == T_FLOAT && (s & (enc == E_ULAW ? 3 : 15))) continue ;	/* float -> G.711 compared on the codec's index grid only */
					v = enc == E_ULAW ? ref_ulaw_decode (ref_ulaw_encode (s)) : ref_alaw_decode (ref_alaw_encode (s)) ;
					}
				else if (w)
					v = wtype == T_SHORT ? ref_short_to_int (w, sv [i]) : (int32_t) ref_float_to_int (w, ((float *) in) [i], 1, &in_range) ;
				else
					fx = wtype == T_SHORT ? (double) sv [i] : (double) ((float *) in) [i] ;
				if (! in_range) continue ;
				if (w)
					switch (rtype)
					{	case T_SHORT : ok = ((short *) out) [i] == ref_int_to_short (w, v) ; break ;
						case T_INT : ok = ((int *) out) [i] == ref_int_to_int (w, v) ; break ;
						case T_FLOAT : ok = ((float *) out) [i] == ref_int_to_float (w, v, 1) ; break ;
						case T_DOUBLE : ok = ((double *) out) [i] == ref_int_to_double (w, v, 1) ; break ;
						}
				else
					switch (rtype)
					{	case T_SHORT : ok = ((short *) out) [i] == (short) lrint (fx) ; break ;
						case T_INT : ok = ((int *) out) [i] == (int) lrint (fx) ; break ;
						case T_FLOAT : ok = ((float *) out) [i] == (float) fx ; break ;
						case T_DOUBLE : ok = ((double *) out) [i] == fx ; break ;
						}
				if (! ok && bad ++ == 0)
					vl_violation (sig ("cross|%s|w-%s|r-%s|value", rt_fam (f), type_names [wtype], type_names [rtype]), "%s: input %s read back as %s",
						f->name, rt_fmt_item (in, wtype, i, 0), rt_fmt_item (out, rtype, i, 1)) ;
				}
		oh = vl_hash (out, n * type_size [rtype], oh) ;
		INLIB (sf_close (sf)) ;
		}
	vl_count_extra (0, 4 * n) ;
	free (in) ; free (out) ;
	vl_end (1, oh) ;
}

static void run_c02 (void)
{	for (int enc = 0 ; enc < E_N ; enc++)
		for (int end = 0 ; end < 2 ; end++)
		{	int isf = (enc == E_FLOAT || enc == E_DOUBLE) ;
			for (int type = 0 ; type < T_NTYPES ; type++)
			{	int fl = (type == T_FLOAT || type == T_DOUBLE) ;
				if (! isf)
				{	for (int norm = fl ? 0 : 1 ; norm < 2 ; norm++)
						if (vl_case ("C02 read enc=%s end=%s type=%s norm=%d", enc_name [enc], end_name [end], type_names [type], norm))
						{	vl_root_count (enc_name [enc]) ; c02_read_int_file (enc, end, type, norm) ; }
					for (int norm = fl ? 0 : 1 ; norm < 2 ; norm++)
						for (int clip = 0 ; clip < (fl ? 2 : 1) ; clip++)
							if (vl_case ("C02 write enc=%s end=%s type=%s norm=%d clip=%d", enc_name [enc], end_name [end], type_names [type], norm, clip))
							{	vl_root_count (enc_name [enc]) ; c02_write_int_file (enc, end, type, norm, clip) ; }
					}
				else
				{	for (int scale = 0 ; scale < (fl ? 1 : 2) ; scale++)
						if (vl_case ("C02 fwrite enc=%s end=%s type=%s scale_int_float_write=%d", enc_name [enc], end_name [end], type_names [type], scale))
						{	vl_root_count (enc_name [enc]) ; c02_float_file_write (enc, end, type, scale) ; }
					for (int clip = 0 ; clip < (fl ? 1 : 2) ; clip++)
						for (int scale = 0 ; scale < (fl ? 1 : 2) ; scale++)
							if (vl_case ("C02 fread enc=%s end=%s type=%s clip=%d scale_float_int_read=%d", enc_name [enc], end_name [end], type_names [type], clip, scale))
							{	vl_root_count (enc_name [enc]) ; c02_float_file_read (enc, end, type, clip, scale) ; }
					}
				}
			if (isf && vl_case ("C02 fread-agree enc=%s end=%s", enc_name [enc], end_name [end]))
			{	vl_root_count (enc_name [enc]) ; c02_float_file_scaled_agree (enc, end) ; }
			}
	for (int fi = 0 ; fi < fmt_count ; fi++)
	{	const Fmt *f = &fmt_list [fi] ;
		if (f->needs_path || (f->format & SF_FORMAT_TYPEMASK) == SF_FORMAT_RAW) continue ;
		if ((f->format & SF_FORMAT_TYPEMASK) == SF_FORMAT_SDS) continue ;	/* SDS packs 14/21/28 bits whatever the nominal width: covered by C01 */
		if (enc_of_sub (f->format & SF_FORMAT_SUBMASK) < 0) continue ;
		if ((f->format & SF_FORMAT_ENDMASK) == SF_ENDIAN_CPU) continue ;
		for (int wt = 0 ; wt < 2 ; wt++)
			if (vl_case ("C02 cross fmt=%s wtype=%s", f->name, wt ? "float" : "short"))
			{	vl_root_count ("cross") ; c02_cross (f, wt ? T_FLOAT : T_SHORT) ; }
		}
	for (int fi = 0 ; fi < fmt_count ; fi++)
	{	const Fmt *f = &fmt_list [fi] ;
		if (f->needs_path || (f->format & SF_FORMAT_ENDMASK) == SF_ENDIAN_CPU || ! rt_accepts (f, 1, fmt_default_rate (f))) continue ;
		for (int type = T_FLOAT ; type <= T_DOUBLE ; type++) for (int norm = 0 ; norm < 2 ; norm++) for (int clip = 0 ; clip < 2 ; clip++)
			if (vl_case ("C02 wild fmt=%s type=%s norm=%d clip=%d", f->name, type_names [type], norm, clip))
			{	vl_root_count ("wild") ; c02_wild (f, type, norm, clip) ; }
		}
}

void run_c20 (void) ;

void harness_run (void)
{	fmt_build () ;
	md_init (&dev) ;
	if (! strcmp (vl_opts.prop, "C02")) run_c02 () ;
	else if (! strcmp (vl_opts.prop, "C20")) run_c20 () ;
	else { fprintf (stderr, "h_conv: unknown property %s\n", vl_opts.prop) ; exit (3) ; }
}
