/* h_rw.c - C05 (read / write call contract) and C06 (decoded audio depends only on frame position).
** Bounded exhaustive exploration of call histories on the real library; reference = one sequential
** read of a fresh handle (per type), model state = frame position.
*/
#include "vlib.h"
#include "rt_common.h"

const char *harness_name = "h_rw" ;

typedef struct
{	const Fmt	*f ;
	int			fi, ch, rate, B, seekable, has_codec_state, blockwidth, ok ;
	long		F ;
	unsigned char *bytes, *plain ; sf_count_t len, plain_len, dataoffset ;
	void		*ref [T_NTYPES] ;
} Root ;

static Root root = { .fi = -1 } ;
static MemDev dev ;

static SNDFILE *root_open (Root *r)
{	SF_INFO info ;
	md_set (&dev, r->bytes, r->len) ;
	dev.budget = 4096 + 64 * (r->len + 400000) ;
	rt_info_read (&info, r->f, r->ch, r->rate) ;
	return md_open (&dev, SFM_READ, &info) ;
}

static const char *root_sig (const Root *r) { return rt_sig ("%s|%s", rt_fam (r->f), rt_chclass (r->ch)) ; }

/* build the file and the per-type sequential references; returns 0 if the root cannot be used */
static int root_build (int fi, const Fmt *f, int ch)
{	SF_INFO info ; SNDFILE *sf ; long N, items ; int wtype, rc ; void *wbuf ; PeekState pk ;

	if (root.fi == fi && root.ch == ch) return root.ok ;
	free (root.bytes) ; free (root.plain) ; for (int t = 0 ; t < T_NTYPES ; t++) free (root.ref [t]) ;
	memset (&root, 0, sizeof (root)) ;
	root.fi = fi ; root.f = f ; root.ch = ch ; root.rate = fmt_default_rate (f) ; root.B = fmt_block (f, ch, root.rate) ;
	N = root.B > 1 ? 2 * root.B + root.B / 2 + 1 : 4200 / ch + 3 ;
	if (root.B > 1 && N < 4200 / ch && root.B <= 600) N = (4200 / ch / root.B + 1) * root.B + root.B / 2 + 1 ;
	items = N * ch ;
	wtype = f->is_float ? T_FLOAT : (f->width > 16 ? T_INT : T_SHORT) ;
	md_reset (&dev) ;
	rt_info (&info, f, ch, root.rate) ;
	sf = md_open (&dev, SFM_WRITE, &info) ;
	if (! sf) return 0 ;
	wbuf = malloc (items * 8) ;
	/* smooth-ish but position-identifying content so that lossy codecs stay well conditioned */
	for (long i = 0 ; i < items ; i++)
	{	long fr = i / ch ; int c = (int) (i % ch) ;
		int32_t v = (int32_t) ((((fr * 37 + c * 11) % 8191) - 4095) * 65536 * 3 + (fr % 251) * 65536 + (fr & 0xFF) * 256) ;
		/* encodings that store every value exactly also get steps of nearly the whole range (delta encodings wrap there): + full scale, - full scale, back */
		if ((f->width > 0 || f->is_float) && fr % 89 == 40) v = 0x7FFF0000 - (int32_t) (fr & 0xFF) * 65536 ;
		if ((f->width > 0 || f->is_float) && fr % 89 == 41) v = - 0x7FFF0000 + (int32_t) (fr & 0xFF) * 65536 ;
		switch (wtype)
		{	case T_SHORT : ((short *) wbuf) [i] = (short) (v >> 16) ; break ;
			case T_INT : ((int *) wbuf) [i] = v ; break ;
			default : ((float *) wbuf) [i] = (float) v / 2147483648.0f ; break ;
			}
		}
	if (vl_write (sf, wtype, 0, wbuf, items) != items) { free (wbuf) ; INLIB (sf_close (sf)) ; return 0 ; }
	if (ch % 2 == 0)
	{	/* the same file without anything behind the audio, for the handles that refuse such a file (AIFF in SFM_RDWR) */
		SNDFILE *p2 ; MemDev pd ; SF_INFO pi ; md_init (&pd) ; rt_info (&pi, f, ch, root.rate) ; p2 = md_open (&pd, SFM_WRITE, &pi) ;
		if (p2 && vl_write (p2, wtype, 0, wbuf, items) == items) { INLIB (sf_close (p2)) ; root.plain_len = pd.len ; root.plain = malloc (pd.len + 1) ; memcpy (root.plain, pd.data, pd.len) ; }
		else if (p2) INLIB (sf_close (p2)) ;
		md_free (&pd) ;
		}
	free (wbuf) ;
	/* even channel counts: a string set after the audio, so that (where the container stores strings) a chunk lies behind the audio data
	** and every read, raw read and seek near the end has something to run into; odd channel counts keep the audio as the last thing in the file */
	if (ch % 2 == 0) INLIB (sf_set_string (sf, SF_STR_COMMENT, "a comment that lies behind the audio")) ;
	INLIB (rc = sf_close (sf)) ;
	root.len = dev.len ; root.bytes = malloc (dev.len + 1) ; memcpy (root.bytes, dev.data, dev.len) ;

	for (int pass = 0 ; pass < 2 ; pass++)
		for (int t = 0 ; t < T_NTYPES ; t++)
		{	SF_INFO ri ; void *buf ; sf_count_t r ;
			md_set (&dev, root.bytes, root.len) ; rt_info_read (&ri, f, ch, root.rate) ;
			sf = md_open (&dev, SFM_READ, &ri) ;
			if (! sf) return 0 ;
			if (pass == 0 && t == 0)
			{	root.F = ri.frames ; root.seekable = ri.seekable ;
				pk_get (sf, &pk, 1) ; root.has_codec_state = pk.codec_hash != 0 ; root.dataoffset = pk.dataoffset ; root.blockwidth = pk.blockwidth ;
				}
			buf = calloc (root.F * ch + 8, 8) ;
			r = vl_read (sf, t, 1, buf, root.F) ;
			INLIB (sf_close (sf)) ;
			if (r != root.F) { free (buf) ; root.ok = -1 ; return -1 ; }	/* C04's subject: header count not readable */
			if (pass == 0) root.ref [t] = buf ;
			else
			{	int same = memcmp (buf, root.ref [t], root.F * ch * type_size [t]) == 0 ;
				free (buf) ;
				if (! same) { root.ok = -2 ; return -2 ; }	/* decode not reproducible between two fresh handles */
				}
			}
	root.ok = 1 ;
	return 1 ;
}

static void root_report_unusable (int code)
{	if (code == -1) vl_violation (rt_sig ("%s|sequential-read-short", root_sig (&root)), "a single sequential read does not deliver the %ld frames the header reports", root.F) ;
	if (code == -2) vl_violation (rt_sig ("%s|decode-not-reproducible", root_sig (&root)), "two fresh handles on the same bytes decode different samples (dependence on stale memory)") ;
}

/* position query that must have no side effect */
static int tell_whence = SEEK_CUR ;	/* RDWR handles: SEEK_CUR | SFM_READ (plain SEEK_CUR moves both cursors to the write position) */
static sf_count_t tell (SNDFILE *sf) { sf_count_t p ; INLIB (p = sf_seek (sf, 0, tell_whence)) ; return p ; }

/* ---------------------------------------------------------------------------------------- C05 reads */

enum { KS_1 = 0, KS_3, KS_BM1, KS_BP1, KS_STAGE, KS_REM2, KS_REMSTAGE, KS_N } ;

static long k_value (int ks, int type, long p)
{	long S = 8192 / type_size [type] / root.ch, rem = root.F - p ;
	switch (ks)
	{	case KS_1 : return 1 ;
		case KS_3 : return 3 ;
		case KS_BM1 : return root.B > 2 ? root.B - 1 : 2 ;
		case KS_BP1 : return root.B > 1 ? root.B + 1 : 7 ;
		case KS_STAGE : return S + 1 ;
		case KS_REM2 : return rem + 2 ;
		default : return rem + S ;
		}
}

/* one checked read call; returns frames delivered or -1 after a violation that makes continuing pointless */
static long checked_read (SNDFILE *sf, int type, int fvar, long p, long k, const char *phase)
{	GBuf g ; int ch = root.ch, tsz = type_size [type] ; long req_items = k * ch, want = root.F - p < k ? root.F - p : k ; sf_count_t r ; long rf ;
	const char *rs = root_sig (&root) ; int e, gc ; PeekState pk ;

	gb_new (&g, 64, req_items * tsz, 64, 0xA5) ;
	r = vl_read (sf, type, fvar, gb_ptr (&g), fvar ? k : req_items) ;
	vl_note ("%s read_%s%s(%ld) at %ld -> %lld", phase, type_names [type], fvar ? "f" : "", fvar ? k : req_items, p, (long long) r) ;
	if ((gc = gb_check (&g)) != 0)
		vl_violation (rt_sig ("%s|read-outside-request", rs), "bytes %s the requested region were modified (read of %ld frames at %ld)", gc == 1 ? "before" : "after", k, p) ;
	if (r < 0 || r > (fvar ? k : req_items) || (! fvar && r % ch))
	{	vl_violation (rt_sig ("%s|read-return-range", rs), "returned %lld for a request of %ld %s at frame %ld", (long long) r, fvar ? k : req_items, fvar ? "frames" : "items", p) ;
		gb_free (&g) ; return -1 ;
		}
	rf = fvar ? r : r / ch ;
	if (rf != want)
		vl_violation (rt_sig ("%s|read-count%s", rs, rf < want ? "-short" : "-long"), "read of %ld frames at %ld of %ld returned %ld frames (expected %ld)", k, p, root.F, rf, want) ;
	if (rf > 0 && memcmp (gb_ptr (&g), (char *) root.ref [type] + p * ch * tsz, (rf < want ? rf : want) * ch * tsz) != 0)
	{	long d = rt_first_diff (gb_ptr (&g), (char *) root.ref [type] + p * ch * tsz, (rf < want ? rf : want) * ch, type) ;
		vl_violation (rt_sig ("%s|read-data", rs), "read of %ld frames at %ld: item %ld is %s, sequential reference has %s", k, p, d, rt_fmt_item (gb_ptr (&g), type, d, 0),
			rt_fmt_item ((char *) root.ref [type] + p * ch * tsz, type, d, 1)) ;
		}
	INLIB (e = sf_error (sf)) ;
	if (p >= root.F)
	{	/* end of data: 0, zero-filled request, no error */
		unsigned char *q = gb_ptr (&g) ; int zero = 1 ;
		for (long i = 0 ; i < req_items * tsz && zero ; i++) zero = q [i] == 0 ;
		if (rf == 0 && ! zero) vl_violation (rt_sig ("%s|eof-not-zero-filled", rs), "read at end of data left the requested region unzeroed") ;
		if (e != 0) vl_violation (rt_sig ("%s|eof-sets-error", rs), "read at end of data set error %d", e) ;
		}
	else if (e != 0)
		vl_violation (rt_sig ("%s|read-sets-error", rs), "successful read set error %d (%s)", e, sf_error_number (e)) ;
	pk_get (sf, &pk, 0) ;
	if (pk.read_current != p + rf)
		vl_violation (rt_sig ("%s|position-advance", rs), "read position is %lld after delivering %ld frames from %ld", (long long) pk.read_current, rf, p) ;
	if (root.seekable)
	{	sf_count_t t = tell (sf) ;
		if (t != p + rf) vl_violation (rt_sig ("%s|tell-after-read", rs), "sf_seek (0, SEEK_CUR) = %lld after delivering %ld frames from %ld", (long long) t, rf, p) ;
		}
	gb_free (&g) ;
	return rf ;
}

static int goto_start (SNDFILE *sf, long start)
{	if (start == 0) return 1 ;
	if (root.seekable)
	{	sf_count_t r ; INLIB (r = sf_seek (sf, start, SEEK_SET)) ;
		if (r == start) return 1 ;
		if (r != -1) return 0 ;
		/* codec cannot seek there: reach the position by reading */
		INLIB (sf_seek (sf, 0, SEEK_SET)) ;
		if (tell (sf) != 0) return 0 ;
		}
	{	void *tmp = malloc (start * root.ch * 2 + 2) ; sf_count_t r = vl_read (sf, T_SHORT, 1, tmp, start) ; free (tmp) ;
		return r == start ;
		}
}

static int c05_read_setting ;	/* 1: SFC_SET_DITHER_ON_READ issued after the open ("Not implemented" according to docs/command.md: must not change what reads deliver) */
static void c05_read_history (int type, long start, const int *ks, int depth, int var)
{	SNDFILE *sf = root_open (&root) ; long p = start ; uint64_t oh = VL_H0 ;
	if (! sf) { vl_violation (rt_sig ("%s|open-failed", root_sig (&root)), "%s", sf_strerror (NULL)) ; vl_end (1, 1) ; return ; }
	if (c05_read_setting == 1)
	{	SF_DITHER_INFO di ; memset (&di, 0, sizeof (di)) ; di.type = SFD_WHITE ; di.level = 1.0 ;
		INLIB (sf_command (sf, SFC_SET_DITHER_ON_READ, &di, sizeof (di))) ;
		}
	if (var == 1 && root.seekable && start > 0)
	{	/* a handle that has been used: everything is read first (the decoder has seen its last block), then the start position is sought */
		void *all = malloc ((root.F + 4) * root.ch * 2 + 16) ; sf_count_t r ; vl_read (sf, T_SHORT, 1, all, root.F + 3) ; free (all) ;
		INLIB (r = sf_seek (sf, start, SEEK_SET)) ;
		if (r != start) { INLIB (sf_close (sf)) ; sf = root_open (&root) ; if (! sf || ! goto_start (sf, start)) { if (sf) INLIB (sf_close (sf)) ; vl_end (0, 2) ; return ; } }
		}
	else if (! goto_start (sf, start)) { vl_note ("start position %ld not reachable", start) ; INLIB (sf_close (sf)) ; vl_end (0, 2) ; return ; }
	for (int i = 0 ; i < depth ; i++)
	{	long k = k_value (ks [i], type, p), rf = checked_read (sf, type, (var + i) & 1, p, k, "C05") ;
		if (rf < 0) break ;
		p += rf ; oh = vl_hash_u64 (rf, oh) ;
		vl_count_transitions (1) ;
		}
	INLIB (sf_close (sf)) ;
	vl_end (1, oh) ;
}

/* raw reads on sample-granular encodings */
static void c05_raw_history (long start, const int *ks, int depth)
{	SNDFILE *sf = root_open (&root) ; long p = start ; uint64_t oh = VL_H0 ; int bw = root.blockwidth ; const char *rs = root_sig (&root) ;
	if (! sf) { vl_end (0, 1) ; return ; }
	if (! goto_start (sf, start)) { INLIB (sf_close (sf)) ; vl_end (0, 2) ; return ; }
	for (int i = 0 ; i < depth ; i++)
	{	long rem = root.F - p, k = ks [i] == 0 ? 1 : ks [i] == 1 ? 3 : ks [i] == 2 ? 8192 / bw + 1 : rem + 2, want = rem < k ? rem : k ;
		GBuf g ; sf_count_t r ; PeekState pk ;
		gb_new (&g, 64, k * bw, 64, 0x5A) ;
		INLIB (r = sf_read_raw (sf, gb_ptr (&g), k * bw)) ;
		vl_note ("C05 read_raw(%ld bytes) at %ld -> %lld", k * bw, p, (long long) r) ;
		if (gb_check (&g)) vl_violation (rt_sig ("%s|raw-read-outside-request", rs), "guard bytes modified") ;
		if (r < 0 || r > k * bw || r % bw) { vl_violation (rt_sig ("%s|raw-read-return-range", rs), "returned %lld for %ld bytes", (long long) r, k * bw) ; gb_free (&g) ; break ; }
		if (r != want * bw) vl_violation (rt_sig ("%s|raw-read-count", rs), "raw read of %ld frames at %ld of %ld returned %lld bytes", k, p, root.F, (long long) r) ;
		if (r > 0 && memcmp (gb_ptr (&g), root.bytes + root.dataoffset + p * bw, r < want * bw ? r : want * bw) != 0)
			vl_violation (rt_sig ("%s|raw-read-data", rs), "raw read at frame %ld differs from the file bytes", p) ;
		pk_get (sf, &pk, 0) ;
		if (pk.read_current != p + r / bw) vl_violation (rt_sig ("%s|raw-position-advance", rs), "read position %lld after raw read of %lld bytes at %ld", (long long) pk.read_current, (long long) r, p) ;
		p += r / bw ; oh = vl_hash_u64 (r, oh) ;
		gb_free (&g) ;
		vl_count_transitions (1) ;
		}
	INLIB (sf_close (sf)) ;
	vl_end (1, oh) ;
}

/* ---------------------------------------------------------------------------------------- C05 writes */

static int c05_back ;	/* before the last write of the history the write pointer goes back into the data: that write overlaps the end (or stays inside) */

static void c05_write_history (const Fmt *f, int ch, int type, const int *ks, int depth, int var, int raw)
{	long total = 0 ;	SF_INFO info ; SNDFILE *sf ; int rate = fmt_default_rate (f), B = fmt_block (f, ch, rate), rc ; long p = 0 ; uint64_t oh = VL_H0 ;
	const char *rs = rt_sig ("%s|%s", rt_fam (f), rt_chclass (ch)) ; PeekState pk ;
	md_reset (&dev) ; rt_info (&info, f, ch, rate) ;
	sf = md_open (&dev, SFM_WRITE, &info) ;
	if (! sf) { vl_end (0, 1) ; return ; }
	pk_get (sf, &pk, 0) ;
	for (int i = 0 ; i < depth ; i++)
	{	long S = 8192 / type_size [type] / ch, k ; sf_count_t w ; long wf ; int fvar = (var + i) & 1, e, bw = pk.blockwidth ;
		void *buf ;
		switch (ks [i]) { case 0 : k = 1 ; break ; case 1 : k = 3 ; break ; case 2 : k = B > 2 ? B - 1 : 2 ; break ; case 3 : k = B > 1 ? B + 1 : 7 ; break ; default : k = S + 1 ; break ; }
		if (c05_back && i == depth - 1 && p > 1)
		{	sf_count_t r, target = c05_back == 1 ? p / 2 : p - 1 ; INLIB (r = sf_seek (sf, target, SEEK_SET)) ;
			vl_note ("C05 seek back to %lld -> %lld", (long long) target, (long long) r) ;
			if (r != target) { vl_violation (rt_sig ("%s|write-mode-seek", rs), "sf_seek (%lld, SEEK_SET) inside the written data of a write handle returned %lld", (long long) target, (long long) r) ; break ; }
			p = target ;
			}
		if (raw)
		{	buf = malloc (k * bw) ; memset (buf, 0x11 + i, k * bw) ;	/* exact size: an over-read is an ASan report */
			INLIB (w = sf_write_raw (sf, buf, k * bw)) ;
			vl_note ("C05 write_raw(%ld bytes) -> %lld", k * bw, (long long) w) ;
			if (w != k * bw) vl_violation (rt_sig ("%s|raw-write-count", rs), "sf_write_raw of %ld bytes returned %lld", k * bw, (long long) w) ;
			wf = w > 0 ? w / bw : 0 ;
			}
		else
		{	buf = malloc (k * ch * type_size [type]) ;
			gen_fill (G_RAMP, type, buf, k * ch, f->width ? f->width : 16, f->is_float) ;
			w = vl_write (sf, type, fvar, buf, fvar ? k : k * ch) ;
			vl_note ("C05 write_%s%s(%ld) -> %lld", type_names [type], fvar ? "f" : "", fvar ? k : k * ch, (long long) w) ;
			if (w != (fvar ? k : k * ch))
				vl_violation (rt_sig ("%s|write-count", rs), "write of %ld %s returned %lld", fvar ? k : k * ch, fvar ? "frames" : "items", (long long) w) ;
			wf = w > 0 ? (fvar ? w : w / ch) : 0 ;
			}
		free (buf) ;
		INLIB (e = sf_error (sf)) ;
		if (e != 0) vl_violation (rt_sig ("%s|write-sets-error", rs), "write set error %d (%s)", e, sf_error_number (e)) ;
		pk_get (sf, &pk, 0) ;
		if (p + wf > total) total = p + wf ;
		if (pk.write_current != p + wf || pk.frames != total)
			vl_violation (rt_sig ("%s|write-position-advance", rs), "after accepting %ld frames at %ld: write position %lld, frame count %lld (expected %ld)", wf, p, (long long) pk.write_current, (long long) pk.frames, total) ;
		{	SF_INFO cur ; memset (&cur, 0, sizeof (cur)) ; INLIB (sf_command (sf, SFC_GET_CURRENT_SF_INFO, &cur, sizeof (cur))) ;
			if (cur.frames != total) vl_violation (rt_sig ("%s|current-info-frames", rs), "SFC_GET_CURRENT_SF_INFO reports %lld frames after writes that reach frame %ld", (long long) cur.frames, total) ;
			}
		p += wf ; oh = vl_hash_u64 (w, oh) ;
		vl_count_transitions (1) ;
		}
	INLIB (rc = sf_close (sf)) ;
	if (rc != 0) vl_violation (rt_sig ("%s|close-nonzero", rs), "sf_close returned %d", rc) ;
	if (c05_back && ! raw)
	{	/* the closed file holds exactly the frames the writes reached */
		SF_INFO ri ; md_rewind (&dev) ; rt_info_read (&ri, f, ch, rate) ; sf = md_open (&dev, SFM_READ, &ri) ;
		if (! sf) vl_violation (rt_sig ("%s|reopen-failed", rs), "%s", sf_strerror (NULL)) ;
		else { if (ri.frames != total && B <= 1) vl_violation (rt_sig ("%s|closed-frames", rs), "the closed file has %lld frames, the writes reached frame %ld", (long long) ri.frames, total) ; INLIB (sf_close (sf)) ; }
		}
	vl_end (1, vl_hash_u64 (md_hash (&dev), oh)) ;
}

/* RDWR interplay on sample-granular encodings: the write cursor is parked inside the data, then reads and (typed or raw)
** writes alternate without seeks. Every write stores what is already there, so the sequential reference stays valid and
** any confusion between the two cursors shows up as wrong data or a wrong count in a later read. */
static void c05_rdwr_history (int w0sel, int k1sel, int wmode, int k2sel, int k3sel)
{	SF_INFO info ; SNDFILE *sf ; const char *rs = root_sig (&root) ; int ch = root.ch, bw = root.blockwidth ;
	int type = root.f->is_float ? T_FLOAT : T_SHORT ; long ksz [3] = { 1, 10, 8192 / bw + 1 } ;
	long w0 = w0sel == 0 ? 0 : w0sel == 1 ? 100 : root.F - 12, p = 0, wp, k ; sf_count_t r ; uint64_t oh = VL_H0 ;
	md_set (&dev, root.bytes, root.len) ; rt_info_read (&info, root.f, ch, root.rate) ;
	sf = md_open (&dev, SFM_RDWR, &info) ;
	if (! sf && root.plain) { md_set (&dev, root.plain, root.plain_len) ; rt_info_read (&info, root.f, ch, root.rate) ; sf = md_open (&dev, SFM_RDWR, &info) ; }
	if (! sf) { vl_note ("RDWR refused: %s", sf_strerror (NULL)) ; vl_end (0, 1) ; return ; }
	tell_whence = SEEK_CUR | SFM_READ ;
	if (type == T_FLOAT && ! root.f->is_float) INLIB (sf_command (sf, SFC_SET_NORM_FLOAT, NULL, SF_FALSE)) ;
	INLIB (r = sf_seek (sf, w0, SEEK_SET | SFM_WRITE)) ;
	if (r != w0) { vl_violation (rt_sig ("%s|rdwr-seek-write", rs), "SEEK_SET|SFM_WRITE to %ld returned %lld", w0, (long long) r) ; tell_whence = SEEK_CUR ; INLIB (sf_close (sf)) ; vl_end (1, 2) ; return ; }
	wp = w0 ;
	if (checked_read (sf, type, 1, p, ksz [k1sel], "C05-rdwr") >= 0) p += ksz [k1sel] < root.F - p ? ksz [k1sel] : root.F - p ;
	k = ksz [k2sel] ; if (wp + k > root.F) k = root.F - wp ;
	if (wmode == 0)
	{	INLIB (r = sf_write_raw (sf, root.bytes + root.dataoffset + wp * bw, k * bw)) ;
		if (r != k * bw) vl_violation (rt_sig ("%s|rdwr-raw-write-count", rs), "raw write of %ld bytes returned %lld", k * bw, (long long) r) ;
		}
	else
	{	r = vl_write (sf, type, 1, (char *) root.ref [type] + wp * ch * type_size [type], k) ;
		if (r != k) vl_violation (rt_sig ("%s|rdwr-write-count", rs), "write of %ld frames returned %lld", k, (long long) r) ;
		}
	vl_note ("C05-rdwr %s write of %ld frames at %ld -> %lld", wmode ? "typed" : "raw", k, wp, (long long) r) ;
	wp += k ;
	{	sf_count_t rp, wq ; INLIB (rp = sf_seek (sf, 0, SEEK_CUR | SFM_READ)) ; INLIB (wq = sf_seek (sf, 0, SEEK_CUR | SFM_WRITE)) ;
		if (rp != p || wq != wp) vl_violation (rt_sig ("%s|rdwr-cursors", rs), "after read+write: read cursor %lld (expected %ld), write cursor %lld (expected %ld)", (long long) rp, p, (long long) wq, wp) ;
		}
	{	long got = checked_read (sf, type, 0, p, ksz [k3sel], "C05-rdwr") ; if (got > 0) p += got ; oh = vl_hash_u64 (got, oh) ; }
	{	long got = checked_read (sf, type, 1, p, 3, "C05-rdwr") ; oh = vl_hash_u64 (got, oh) ; }
	vl_count_transitions (5) ;
	tell_whence = SEEK_CUR ;
	INLIB (sf_close (sf)) ;
	vl_end (1, oh) ;
}

static void run_c05 (void)
{	for (int fi = 0 ; fi < fmt_count ; fi++)
	{	const Fmt *f = &fmt_list [fi] ;
		if (f->needs_path || (f->format & SF_FORMAT_ENDMASK) == SF_ENDIAN_CPU) continue ;
		if (! vl_opts.thorough && (f->format & SF_FORMAT_ENDMASK) == SF_ENDIAN_LITTLE) continue ;
		for (int ch = 1 ; ch <= 3 ; ch++)
		{	int rc, depth = 3 ;
			if (! rt_accepts (f, ch, fmt_default_rate (f))) continue ;
			/* ---- reads ---- */
			if (vl_case ("C05 root fmt=%s ch=%d", f->name, ch))
			{	vl_root_count (f->name) ;
				rc = root_build (fi, f, ch) ;
				if (rc < 0) root_report_unusable (rc) ;
				vl_count_states (1) ;
				vl_end (rc > 0, rc) ;
				}
			for (int type = 0 ; type < T_NTYPES ; type++)
			{	long starts [7] ; int ns = 0, B = fmt_block (f, ch, fmt_default_rate (f)) ;
				/* the start set needs F: computed lazily inside the case; here symbolic codes 0..6 */
				for (int s = 0 ; s < 7 ; s++) starts [ns++] = s ;
				for (int si = 0 ; si < ns ; si++)
					for (int code = 0 ; code < KS_N * KS_N * KS_N ; code++)
					{	int ks [3] = { code % KS_N, (code / KS_N) % KS_N, code / (KS_N * KS_N) } ;
						int var = (code + si + type) & 1 ;
						/* prune: after a request that reaches the end of data only one further (EOF) read is meaningful */
						if (ks [0] >= KS_REM2 && ks [1] != KS_1) continue ;
						if ((ks [0] >= KS_REM2 || ks [1] >= KS_REM2) && ks [2] != KS_3) continue ;
						if (! vl_opts.thorough && type != T_SHORT && type != T_FLOAT && (code % 3) != (si % 3)) continue ;
						if (vl_case ("C05 R fmt=%s ch=%d type=%s start=%d k=%d,%d,%d var=%d", f->name, ch, type_names [type], si, ks [0], ks [1], ks [2], var))
						{	long st ;
							vl_root_count (f->name) ;
							rc = root_build (fi, f, ch) ;
							if (rc <= 0) { vl_end (0, 3) ; continue ; }
							switch (si) { case 0 : st = 0 ; break ; case 1 : st = 1 ; break ; case 2 : st = B > 1 ? B - 1 : 2 ; break ; case 3 : st = B > 1 ? B : 5 ; break ;
											case 4 : st = root.F - 2 ; break ; case 5 : st = root.F - 1 ; break ; default : st = root.F ; break ; }
							if (st < 0) st = 0 ;
							c05_read_history (type, st, ks, depth, var) ;
							}
						}
				}
			/* the same reads with a read-side command setting in force: all depth-2 request-size histories from frame 0 */
			for (int type = 0 ; type < T_NTYPES ; type++)
				for (int code = 0 ; code < KS_N * KS_N ; code++)
				{	int ks [3] = { code % KS_N, code / KS_N, KS_3 } ;
					if (vl_case ("C05 RS fmt=%s ch=%d type=%s start=0 k=%d,%d,%d set=dither-on-read", f->name, ch, type_names [type], ks [0], ks [1], ks [2]))
					{	vl_root_count (f->name) ;
						rc = root_build (fi, f, ch) ;
						if (rc <= 0) { vl_end (0, 3) ; continue ; }
						c05_read_setting = 1 ; c05_read_history (type, 0, ks, depth, code & 1) ; c05_read_setting = 0 ;
						}
					}
			if (f->gran && (f->format & SF_FORMAT_SUBMASK) != SF_FORMAT_DPCM_8 && (f->format & SF_FORMAT_SUBMASK) != SF_FORMAT_DPCM_16)
				for (int si = 0 ; si < 3 ; si++)
					for (int code = 0 ; code < 64 ; code++)
					{	int ks [3] = { code % 4, (code / 4) % 4, code / 16 } ;
						if (vl_case ("C05 RAWR fmt=%s ch=%d start=%d k=%d,%d,%d", f->name, ch, si, ks [0], ks [1], ks [2]))
						{	vl_root_count (f->name) ;
							rc = root_build (fi, f, ch) ;
							if (rc <= 0) { vl_end (0, 3) ; continue ; }
							c05_raw_history (si == 0 ? 0 : si == 1 ? 1 : root.F - 2, ks, 3) ;
							}
						}
			/* ---- RDWR interplay ---- */
			if (f->gran && (f->format & SF_FORMAT_SUBMASK) != SF_FORMAT_DPCM_8 && (f->format & SF_FORMAT_SUBMASK) != SF_FORMAT_DPCM_16 && ch <= 2)
				for (int code = 0 ; code < 3 * 3 * 2 * 3 * 3 ; code++)
				{	int w0 = code % 3, k1 = (code / 3) % 3, wm = (code / 9) % 2, k2 = (code / 18) % 3, k3 = code / 54 ;
					if (vl_case ("C05 RDWR fmt=%s ch=%d w0=%d k1=%d wmode=%s k2=%d k3=%d", f->name, ch, w0, k1, wm ? "typed" : "raw", k2, k3))
					{	vl_root_count (f->name) ;
						rc = root_build (fi, f, ch) ;
						if (rc <= 0) { vl_end (0, 3) ; continue ; }
						c05_rdwr_history (w0, k1, wm, k2, k3) ;
						}
					}
			/* ---- writes ---- */
			for (int type = 0 ; type < T_NTYPES ; type++)
				for (int code = 0 ; code < 125 ; code++)
				{	int ks [3] = { code % 5, (code / 5) % 5, code / 25 }, var = (code + type) & 1 ;
					if (! vl_opts.thorough && type != T_SHORT && type != T_FLOAT && (code % 4) != 0) continue ;
					if (vl_case ("C05 W fmt=%s ch=%d type=%s k=%d,%d,%d var=%d", f->name, ch, type_names [type], ks [0], ks [1], ks [2], var))
					{	vl_root_count (f->name) ; c05_write_history (f, ch, type, ks, 3, var, 0) ; }
					}
			/* ---- the last write starts inside the data written so far (write-mode seek): it ends before, at or behind the old end ---- */
			if (f->gran && (f->format & SF_FORMAT_SUBMASK) != SF_FORMAT_DPCM_8 && (f->format & SF_FORMAT_SUBMASK) != SF_FORMAT_DPCM_16)
				for (int type = 0 ; type < T_NTYPES ; type++) for (int var = 0 ; var < 2 ; var++) for (int back = 1 ; back <= 2 ; back++)
					for (int code = 0 ; code < 10 ; code++)
					{	int ks [3] = { 1, code < 5 ? 3 : 4, code % 5 } ;
						if (vl_case ("C05 WB fmt=%s ch=%d type=%s k=%d,%d,%d var=%d back=%s", f->name, ch, type_names [type], ks [0], ks [1], ks [2], var, back == 1 ? "half" : "one"))
						{	vl_root_count (f->name) ; c05_back = back ; c05_write_history (f, ch, type, ks, 3, var, 0) ; c05_back = 0 ; }
						}
			if (f->gran && (f->format & SF_FORMAT_SUBMASK) != SF_FORMAT_DPCM_8 && (f->format & SF_FORMAT_SUBMASK) != SF_FORMAT_DPCM_16)
				for (int code = 0 ; code < 25 ; code++)
				{	int ks [3] = { code % 5, code / 5, 0 } ;
					if (vl_case ("C05 RAWW fmt=%s ch=%d k=%d,%d", f->name, ch, ks [0], ks [1]))
					{	vl_root_count (f->name) ; c05_write_history (f, ch, T_SHORT, ks, 2, 0, 1) ; }
					}
			}
		}
}

/* ---------------------------------------------------------------------------------------- C06 */

typedef struct { char kind ; long arg ; } Op ;	/* 'r' read frames, 'S' seek set, 'C' seek cur, 'E' seek end */
static Op ops [40] ; static int nops ;

static void add_op (char kind, long arg)
{	for (int i = 0 ; i < nops ; i++) if (ops [i].kind == kind && ops [i].arg == arg) return ;
	ops [nops].kind = kind ; ops [nops].arg = arg ; nops ++ ;
}

static void build_ops (void)
{	long B = root.B > 1 ? root.B : 16, F = root.F ;
	nops = 0 ;
	add_op ('r', 1) ; add_op ('r', 2) ; add_op ('r', 3) ; add_op ('r', B - 1) ; add_op ('r', B) ; add_op ('r', B + 1) ; add_op ('r', F) ;
	if (root.seekable)
	{	long ts [] = { 0, 1, B - 1, B, B + 1, 2 * B - 1, 2 * B, 2 * B + 1, F - 1, F, F + 1, -1 } ;
		long ds [] = { -B - 1, -1, 0, 1, B + 1 }, es [] = { 0, -1, -B, -F, 1 } ;
		for (unsigned i = 0 ; i < sizeof (ts) / sizeof (ts [0]) ; i++) add_op ('S', ts [i]) ;
		for (unsigned i = 0 ; i < sizeof (ds) / sizeof (ds [0]) ; i++) add_op ('C', ds [i]) ;
		for (unsigned i = 0 ; i < sizeof (es) / sizeof (es [0]) ; i++) add_op ('E', es [i]) ;
		}
}

/* run one history; returns hash key of the final (model, implementation) state, or 0 on violation */
static uint64_t c06_history (int type, const int *h, int depth, int var)
{	SNDFILE *sf = root_open (&root) ; long p = 0 ; const char *rs = root_sig (&root) ; uint64_t key = 0 ; int dead = 0 ; PeekState pk ;
	if (! sf) { vl_violation (rt_sig ("%s|open-failed", rs), "%s", sf_strerror (NULL)) ; return 0 ; }
	for (int i = 0 ; i < depth && ! dead ; i++)
	{	Op o = ops [h [i]] ;
		vl_count_transitions (1) ;
		if (o.kind == 'r')
		{	long rf = checked_read (sf, type, (var + i) & 1, p, o.arg, "C06") ;
			if (rf < 0) { dead = 1 ; break ; }
			p += rf ;
			}
		else
		{	int whence = o.kind == 'S' ? SEEK_SET : o.kind == 'C' ? SEEK_CUR : SEEK_END ; sf_count_t r, t ; int e ;
			long target = o.kind == 'S' ? o.arg : o.kind == 'C' ? p + o.arg : root.F + o.arg ;
			INLIB (r = sf_seek (sf, o.arg, whence)) ; INLIB (e = sf_error (sf)) ;
			vl_note ("C06 seek(%ld,%s) at %ld -> %lld err=%d", o.arg, o.kind == 'S' ? "SET" : o.kind == 'C' ? "CUR" : "END", p, (long long) r, e) ;
			if (target < 0 || target > root.F)
			{	if (r != -1) vl_violation (rt_sig ("%s|seek-out-of-range-accepted", rs), "seek to frame %ld of %ld returned %lld", target, root.F, (long long) r) ;
				else if (e == 0) vl_violation (rt_sig ("%s|seek-fail-no-error", rs), "failed seek left sf_error at 0") ;
				}
			else if (r == target) p = target ;
			else if (r == -1)
			{	if (e == 0) vl_violation (rt_sig ("%s|seek-fail-no-error", rs), "failed seek left sf_error at 0") ; }
			else
			{	vl_violation (rt_sig ("%s|seek-return", rs), "seek to frame %ld returned %lld (neither the target nor -1)", target, (long long) r) ; dead = 1 ; break ; }
			t = tell (sf) ;
			if (t != p)
			{	vl_violation (rt_sig ("%s|tell-after-%sseek", rs, r == -1 ? "failed-" : ""), "after seek to %ld (returned %lld) a zero-offset SEEK_CUR reports %lld, next frame should be %ld", target, (long long) r, (long long) t, p) ;
				dead = 1 ; break ;
				}
			}
		}
	if (! dead)
	{	/* the next frames delivered must be frames p, p+1 */
		long rf = checked_read (sf, type, var & 1, p, 2, "C06-final") ;
		if (rf >= 0)
		{	pk_get (sf, &pk, 0) ;
			key = vl_hash_u64 (p, vl_hash_u64 (pk.read_current, vl_hash_u64 (dev.pos, 77))) | 1 ;
			}
		}
	INLIB (sf_close (sf)) ;
	return key ;
}

#define MAXSTATES 4096
static void c06_explore (int type, int maxdepth, int prune)
{	/* breadth-first over histories; with prune (no codec state) histories ending in an already expanded state are not extended */
	static int frontier [MAXSTATES][4], next [MAXSTATES][4] ; static uint64_t seen [MAXSTATES * 4] ; int nf = 1, nn, nseen = 0 ;
	long histories = 0 ;
	memset (frontier, 0, sizeof (frontier [0])) ;
	for (int depth = 1 ; depth <= maxdepth ; depth++)
	{	nn = 0 ;
		for (int fidx = 0 ; fidx < nf ; fidx++)
			for (int o = 0 ; o < nops ; o++)
			{	int h [4] ; uint64_t key ; char hs [64] = "" ; int dup = 0 ;
				memcpy (h, frontier [fidx], sizeof (h)) ; h [depth - 1] = o ;
				for (int i = 0 ; i < depth ; i++) { char t [16] ; snprintf (t, 16, "%s%c%ld", i ? "." : "", ops [h [i]].kind, ops [h [i]].arg) ; strcat (hs, t) ; }
				vl_subcase ("C06 H fmt=%s ch=%d type=%s hist=%s", root.f->name, root.ch, type_names [type], hs) ;
				key = c06_history (type, h, depth, depth + o) ;
				histories ++ ;
				if (key == 0 || depth == maxdepth) continue ;
				if (prune)
				{	for (int s = 0 ; s < nseen && ! dup ; s++) dup = seen [s] == key ;
					if (dup) continue ;
					if (nseen < MAXSTATES * 4) seen [nseen++] = key ;
					}
				if (nn < MAXSTATES) memcpy (next [nn++], h, sizeof (h)) ;
				else vl_not_exhaustive ("C06 frontier cap reached") ;
				}
		memcpy (frontier, next, sizeof (frontier [0]) * nn) ; nf = nn ;
		vl_count_states (nn) ;
		}
	vl_count_extra (0, histories) ;
}

static void run_c06 (void)
{	const char *rp = vl_opts.replay ;
	for (int fi = 0 ; fi < fmt_count ; fi++)
	{	const Fmt *f = &fmt_list [fi] ;
		if (f->needs_path || (f->format & SF_FORMAT_ENDMASK) == SF_ENDIAN_CPU) continue ;
		if (! vl_opts.thorough && (f->format & SF_FORMAT_ENDMASK) == SF_ENDIAN_LITTLE) continue ;
		for (int ch = 1 ; ch <= 3 ; ch++)
		{	if (! rt_accepts (f, ch, fmt_default_rate (f))) continue ;
			for (int type = 0 ; type < T_NTYPES ; type++)
			{	/* replay of a single history */
				if (rp && strncmp (rp, "C06 H ", 6) == 0)
				{	char pre [160] ; snprintf (pre, sizeof (pre), "C06 H fmt=%s ch=%d type=%s hist=", f->name, ch, type_names [type]) ;
					if (strncmp (rp, pre, strlen (pre)) != 0) continue ;
					if (root_build (fi, f, ch) <= 0) continue ;
					build_ops () ;
					{	int h [4], depth = 0 ; const char *q = rp + strlen (pre) ;
						while (*q && depth < 4)
						{	char kind = *q++ ; long arg = strtol (q, (char **) &q, 10) ; int found = -1 ;
							for (int o = 0 ; o < nops ; o++) if (ops [o].kind == kind && ops [o].arg == arg) found = o ;
							if (found < 0) { printf ("REPLAY: unknown op %c%ld\n", kind, arg) ; return ; }
							h [depth++] = found ;
							if (*q == '.') q++ ;
							}
						if (vl_case ("%s", rp)) { c06_history (type, h, depth, depth + h [depth - 1]) ; vl_end (1, 0) ; }
						}
					return ;
					}
				if (vl_case ("C06 root fmt=%s ch=%d type=%s", f->name, ch, type_names [type]))
				{	int rc = root_build (fi, f, ch), maxdepth ;
					vl_root_count (f->name) ;
					if (rc < 0) root_report_unusable (rc) ;
					if (rc <= 0) { vl_end (0, rc) ; continue ; }
					build_ops () ;
					/* quick: depth 2 for all four types, depth 3 for one rotating type; thorough: 3 and 4 */
					maxdepth = (vl_opts.thorough ? 3 : 2) + ((fi + ch) % T_NTYPES == type ? 1 : 0) ;
					if (! root.has_codec_state) maxdepth = vl_opts.thorough ? 4 : 3 ;
					if (root.B >= 4096 && maxdepth > 2 && ! vl_opts.thorough) maxdepth = 2 ;
					c06_explore (type, maxdepth, ! root.has_codec_state) ;
					vl_end (1, maxdepth) ;
					}
				}
			}
		}
}

void harness_run (void)
{	fmt_build () ;
	md_init (&dev) ;
	if (! strcmp (vl_opts.prop, "C05")) run_c05 () ;
	else if (! strcmp (vl_opts.prop, "C06")) run_c06 () ;
	else { fprintf (stderr, "h_rw: unknown property %s\n", vl_opts.prop) ; exit (3) ; }
}
