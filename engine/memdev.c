/* memdev.c - in-memory SF_VIRTUAL_IO device with callback log, budget and fault hook; guarded buffers. */
#include "vlib.h"

void vl_budget_exceeded (const char *what) ;

static void md_account (MemDev *md, int kind, sf_count_t off, sf_count_t req, sf_count_t ans)
{	md->ncb ++ ; md->nkind [kind] ++ ;
	if (md->log_on)
	{	if (md->log_n == md->log_cap)
		{	md->log_cap = md->log_cap ? md->log_cap * 2 : 256 ;
			md->log = realloc (md->log, md->log_cap * sizeof (MdLogEnt)) ;
			}
		md->log [md->log_n].kind = kind ; md->log [md->log_n].off = off ;
		md->log [md->log_n].req = req ; md->log [md->log_n].ans = ans ; md->log_n ++ ;
		}
	if (md->budget > 0 && md->ncb > md->budget)
		vl_budget_exceeded ("io") ;
}

/* All callbacks run with vl_inlib cleared: their allocations belong to the device. */
#define CB_ENTER	int saved_inlib = vl_inlib ; vl_inlib = 0
#define CB_LEAVE	vl_inlib = saved_inlib

static sf_count_t cb_len (void *u)
{	MemDev *md = u ; sf_count_t ans = md->len, f ; CB_ENTER ;
	if (md->fault && md->fault (md, MD_LEN, 0, &f, md->fault_user)) ans = f ;
	md_account (md, MD_LEN, md->pos, 0, ans) ;
	CB_LEAVE ; return ans ;
}

static sf_count_t cb_seek (sf_count_t offset, int whence, void *u)
{	MemDev *md = u ; sf_count_t target, f, ans, before = md->pos ; CB_ENTER ;
	switch (whence)
	{	case SEEK_SET : target = offset ; break ;
		case SEEK_CUR : target = md->pos + offset ; break ;
		case SEEK_END : target = md->len + offset ; break ;
		default : target = -1 ; break ;
		}
	if (! md->seekable || target < 0) ans = -1 ;
	else { md->pos = target ; ans = target ; }
	if (md->fault && md->fault (md, MD_SEEK, offset, &f, md->fault_user))
	{	if (f == -1) { md->pos = before ; ans = -1 ; }	/* fails without moving, like lseek */
		else if (f == -2 && ans >= 0) ans = ans + 1 ;
		}
	md_account (md, MD_SEEK, offset, whence, ans) ;
	CB_LEAVE ; return ans ;
}

static sf_count_t cb_read (void *ptr, sf_count_t count, void *u)
{	MemDev *md = u ; sf_count_t n = 0, f ; CB_ENTER ;
	if (count > 0 && md->pos < md->len)
	{	n = md->len - md->pos ; if (n > count) n = count ; }
	if (md->fault && md->fault (md, MD_READ, count, &f, md->fault_user))
	{	if (f < 0) f = 0 ; if (f < n) n = f ; }
	if (n > 0) { memcpy (ptr, md->data + md->pos, n) ; md->pos += n ; }
	md_account (md, MD_READ, md->pos - n, count, n) ;
	CB_LEAVE ; return n ;
}

static void md_grow (MemDev *md, sf_count_t need)
{	if (need <= md->cap) return ;
	sf_count_t nc = md->cap ? md->cap : 4096 ;
	while (nc < need) nc *= 2 ;
	md->data = realloc (md->data, nc) ;
	memset (md->data + md->cap, 0, nc - md->cap) ;
	md->cap = nc ;
}

static sf_count_t cb_write (const void *ptr, sf_count_t count, void *u)
{	MemDev *md = u ; sf_count_t n = count < 0 ? 0 : count, f, off ; CB_ENTER ;
	if (md->fixed_len >= 0)
	{	sf_count_t room = md->fixed_len - md->pos ; if (room < 0) room = 0 ; if (n > room) n = room ; }
	if (md->fault && md->fault (md, MD_WRITE, count, &f, md->fault_user))
	{	if (f < 0) f = 0 ; if (f < n) n = f ; }
	off = md->pos ;
	if (n > 0)
	{	if (md->pos + n > (sf_count_t) 1 << 28) { n = 0 ; }	/* device full: a legitimate short answer */
		else
		{	md_grow (md, md->pos + n) ;
			if (md->pos > md->len) memset (md->data + md->len, 0, md->pos - md->len) ;
			memcpy (md->data + md->pos, ptr, n) ;
			md->pos += n ; if (md->pos > md->len) md->len = md->pos ;
			}
		}
	md_account (md, MD_WRITE, off, count, n) ;
	if (n > 0 && md->on_write) md->on_write (md, off, n, md->on_write_user) ;
	CB_LEAVE ; return n ;
}

static sf_count_t cb_tell (void *u)
{	MemDev *md = u ; sf_count_t ans = md->pos, f ; CB_ENTER ;
	if (md->fault && md->fault (md, MD_TELL, 0, &f, md->fault_user)) ans = f ;
	md_account (md, MD_TELL, md->pos, 0, ans) ;
	CB_LEAVE ; return ans ;
}

SF_VIRTUAL_IO md_vio = { cb_len, cb_seek, cb_read, cb_write, cb_tell } ;

void md_init (MemDev *md)
{	memset (md, 0, sizeof (*md)) ; md->seekable = 1 ; md->fixed_len = -1 ;
}

void md_free (MemDev *md)
{	free (md->data) ; free (md->log) ; md_init (md) ;
}

void md_reset (MemDev *md)
{	if (md->data && md->len > 0) memset (md->data, 0, md->len) ;
	md->len = md->pos = 0 ; md->ncb = 0 ; memset (md->nkind, 0, sizeof (md->nkind)) ;
	md->log_n = 0 ; md->fault = NULL ; md->fault_user = NULL ; md->on_write = NULL ; md->budget = 0 ;
	md->fixed_len = -1 ; md->seekable = 1 ; md->log_on = 0 ;
}

void md_set (MemDev *md, const void *bytes, sf_count_t n)
{	md_reset (md) ;
	md_grow (md, n > 0 ? n : 1) ;
	if (n > 0) memcpy (md->data, bytes, n) ;
	md->len = n ;
}

void md_rewind (MemDev *md)
{	md->pos = 0 ; md->ncb = 0 ; memset (md->nkind, 0, sizeof (md->nkind)) ; md->log_n = 0 ;
}

uint64_t md_hash (const MemDev *md)
{	return vl_hash_u64 (md->len, vl_hash (md->data, md->len, VL_H0)) ;
}

SNDFILE *md_open (MemDev *md, int mode, SF_INFO *info)
{	SNDFILE *sf ;
	INLIB (sf = sf_open_virtual (&md_vio, mode, info, md)) ;
	return sf ;
}

/* ------------------------------------------------------------------ guarded buffers */

void gb_new (GBuf *g, size_t pre, size_t req, size_t post, unsigned char canary)
{	g->pre = pre ; g->req = req ; g->post = post ; g->total = pre + req + post ; g->canary = canary ;
	g->base = malloc (g->total ? g->total : 1) ;
	memset (g->base, canary, g->total) ;
}

void *gb_ptr (GBuf *g) { return g->base + g->pre ; }

int gb_check (const GBuf *g)
{	for (size_t i = 0 ; i < g->pre ; i++) if (g->base [i] != g->canary) return 1 ;
	for (size_t i = g->pre + g->req ; i < g->total ; i++) if (g->base [i] != g->canary) return 2 ;
	return 0 ;
}

void gb_free (GBuf *g) { free (g->base) ; g->base = NULL ; }

/* ------------------------------------------------------------------ typed read / write */

const char *type_names [T_NTYPES] = { "short", "int", "float", "double" } ;
const int type_size [T_NTYPES] = { 2, 4, 4, 8 } ;

sf_count_t vl_read (SNDFILE *sf, int type, int fv, void *buf, sf_count_t count)
{	sf_count_t r = -999 ;
	vl_inlib ++ ;
	switch (type * 2 + (fv ? 1 : 0))
	{	case 0 : r = sf_read_short (sf, buf, count) ; break ;
		case 1 : r = sf_readf_short (sf, buf, count) ; break ;
		case 2 : r = sf_read_int (sf, buf, count) ; break ;
		case 3 : r = sf_readf_int (sf, buf, count) ; break ;
		case 4 : r = sf_read_float (sf, buf, count) ; break ;
		case 5 : r = sf_readf_float (sf, buf, count) ; break ;
		case 6 : r = sf_read_double (sf, buf, count) ; break ;
		case 7 : r = sf_readf_double (sf, buf, count) ; break ;
		}
	vl_inlib -- ;
	return r ;
}

sf_count_t vl_write (SNDFILE *sf, int type, int fv, const void *buf, sf_count_t count)
{	sf_count_t r = -999 ;
	vl_inlib ++ ;
	switch (type * 2 + (fv ? 1 : 0))
	{	case 0 : r = sf_write_short (sf, buf, count) ; break ;
		case 1 : r = sf_writef_short (sf, buf, count) ; break ;
		case 2 : r = sf_write_int (sf, buf, count) ; break ;
		case 3 : r = sf_writef_int (sf, buf, count) ; break ;
		case 4 : r = sf_write_float (sf, buf, count) ; break ;
		case 5 : r = sf_writef_float (sf, buf, count) ; break ;
		case 6 : r = sf_write_double (sf, buf, count) ; break ;
		case 7 : r = sf_writef_double (sf, buf, count) ; break ;
		}
	vl_inlib -- ;
	return r ;
}
