/* h_iso.c - C19: handles are isolated from each other and from earlier library use.
** Preemption-bounded enumeration of the interleavings of scripted per-handle workloads (single thread);
** oracle: each handle's transcript and final file equal those of its script run alone in a fresh process.
*/
#define _GNU_SOURCE
#include "vlib.h"
#include "rt_common.h"
#include <unistd.h>
#include <sys/wait.h>
#include <signal.h>
#include <sys/mman.h>

const char *harness_name = "h_iso" ;

static const char *rep_formats [] =
{	"wav/pcm_16/file", "wav/pcm_24/file", "wav/float/file", "wav/ulaw/file", "wav/ima_adpcm/file", "wav/ms_adpcm/file", "wav/gsm610/file", "wav/g721_32/file", "wav/nms_16/file",
	"aiff/pcm_16/file", "aiff/double/file", "aiff/ima_adpcm/file", "aiff/gsm610/file", "aiff/dwvw_16/file", "au/pcm_32/file", "au/g723_24/file", "au/g723_40/file", "au/alaw/file",
	"caf/pcm_16/file", "caf/alac_16/file", "caf/alac_24/file", "caf/float/file", "w64/pcm_16/file", "w64/ima_adpcm/file", "rf64/pcm_24/file", "wavex/double/file",
	"raw/pcm_16/le", "raw/vox_adpcm/file", "raw/gsm610/file", "raw/dwvw_24/file", "raw/nms_32/file", "paf/pcm_24/file", "paf/pcm_16/file", "svx/pcm_16/file", "nist/pcm_16/file", "nist/ulaw/file",
	"voc/pcm_u8/file", "voc/alaw/file", "ircam/float/file", "mat4/double/file", "mat5/pcm_32/file", "pvf/pcm_16/file", "xi/dpcm_16/file", "htk/pcm_16/file", "sds/pcm_16/file", "sds/pcm_24/file",
	"avr/pcm_16/file", "wve/alaw/file", "mpc2k/pcm_16/file", NULL
} ;

#define NSTEPS 8
typedef struct
{	const Fmt *f ; int ch, kind, B, variant ;		/* kind 0: write script, 1: read script ; variant 1: the handle asks for the portable IEEE serialisers (a per-handle test setting) */
	unsigned char *seed ; sf_count_t seed_len ;	/* read scripts: the file */
	uint64_t solo [NSTEPS + 1] ; int solo_ok ;	/* transcript of the script run alone in a fresh process; [NSTEPS] = final device hash */
} Script ;

static Script scripts [128] ; static int nscripts ;
static uint64_t *iso_outcome ;	/* shared with the per-case child: hash of what the case observed */

typedef struct { Script *s ; MemDev dev ; SNDFILE *sf ; int step, slot ; char path [300] ; uint64_t tr [NSTEPS + 1] ; } Handle ;

/* kinds 2 and 3 are the write / read scripts through sf_open on a real path in the worker's TMPDIR (descriptors, SD2 resource forks) */
static void handle_path (Handle *h)
{	const char *t = getenv ("TMPDIR") ; int sd2 = (h->s->f->format & SF_FORMAT_TYPEMASK) == SF_FORMAT_SD2 ;
	snprintf (h->path, sizeof (h->path), "%s/iso_%d_%d.%s", t && t [0] ? t : "/tmp", (int) getpid (), h->slot, sd2 ? "sd2" : "dat") ;
}
static void path_cleanup (const char *path)
{	char rs [400] ; const char *slash = strrchr (path, '/') ; unlink (path) ;
	snprintf (rs, sizeof (rs), "%.*s/._%s", (int) (slash - path), path, slash + 1) ; unlink (rs) ;
}
static uint64_t file_hash (const char *path)
{	int fd = sio_real_open (path, 0, 0) ; static unsigned char buf [65536] ; long n ; uint64_t hh = VL_H0 ;
	if (fd < 0) return 1 ;
	while ((n = sio_real_read (fd, buf, sizeof (buf))) > 0) hh = vl_hash (buf, n, hh) ;
	sio_real_close (fd) ; return hh ;
}

static short sdata [9000] ; static float fdata [9000] ;

static void init_data (void)
{	for (int i = 0 ; i < 9000 ; i++) { sdata [i] = (short) (((i * 37) % 2001 - 1000) * 13) ; fdata [i] = (float) (((i * 53) % 1501 - 750) / 1024.0) ; }
	/* values on which the host and the portable float serialisers differ (a handle that got the wrong ones shows it in its file) */
	fdata [1] = -0.0f ; fdata [2] = 1e-40f ; fdata [4] = -1e-41f ; fdata [7] = -0.0f ;
}

/* execute step k of the script on the handle; returns the transcript word for it */
static uint64_t do_step (Handle *h, int k)
{	Script *s = h->s ; int ch = s->ch, B = s->B > 1 && s->B < 1200 ? s->B : 16 ; uint64_t t = VL_H0 ; static short sb [9000] ; static float fb [9000] ;
	int e_before = 0 ;
	if (h->sf) INLIB (e_before = sf_error (h->sf)) ;
	t = vl_hash_u64 (e_before, t) ;
	if (s->kind == 0 || s->kind == 2)
		switch (k)
		{	case 0 : { SF_INFO info ; rt_info (&info, s->f, ch, fmt_default_rate (s->f)) ;
						if (s->kind == 0) { md_reset (&h->dev) ; h->sf = md_open (&h->dev, SFM_WRITE, &info) ; }
						else { handle_path (h) ; path_cleanup (h->path) ; INLIB (h->sf = sf_open (h->path, SFM_WRITE, &info)) ; }
						t = vl_hash_u64 (h->sf != NULL, t) ; } break ;
			case 1 : t = vl_hash_u64 (vl_write (h->sf, T_SHORT, 1, sdata, B - 1), t) ; break ;
			case 2 : t = vl_hash_u64 (vl_write (h->sf, T_FLOAT, 0, fdata, (B + 1) * ch), t) ; break ;
			case 3 : t = vl_hash_u64 (vl_read (h->sf, T_SHORT, 1, sb, 2), t) ; break ;						/* failing call: read on a write handle */
			case 4 : { int r ; if (s->variant == 1) INLIB (r = sf_command (h->sf, SFC_TEST_IEEE_FLOAT_REPLACE, NULL, SF_TRUE)) ; else INLIB (r = sf_set_string (h->sf, SF_STR_COMMENT, "iso")) ; t = vl_hash_u64 (r != 0, t) ; } break ;
			case 5 : t = vl_hash_u64 (vl_write (h->sf, T_SHORT, 1, sdata + 100, 3), t) ; break ;
			case 6 : { sf_count_t r ; INLIB (r = sf_seek (h->sf, -5, SEEK_SET)) ; t = vl_hash_u64 (r, t) ; } break ;	/* failing call */
			case 7 : { int r ; INLIB (r = sf_close (h->sf)) ; h->sf = NULL ; t = vl_hash_u64 (r, t) ; } break ;
			}
	else
		switch (k)
		{	case 0 : { SF_INFO info ; rt_info_read (&info, s->f, ch, fmt_default_rate (s->f)) ;
						if (s->kind == 1) { md_set (&h->dev, s->seed, s->seed_len) ; h->sf = md_open (&h->dev, SFM_READ, &info) ; }
						else
						{	/* the file is produced by a plain write through the same path first */
							SF_INFO wi ; SNDFILE *w ; int B2 = s->B > 1 && s->B < 1200 ? s->B : 16 ;
							handle_path (h) ; path_cleanup (h->path) ; rt_info (&wi, s->f, ch, fmt_default_rate (s->f)) ;
							INLIB (w = sf_open (h->path, SFM_WRITE, &wi)) ; if (w) { vl_write (w, T_SHORT, 1, sdata, 3 * B2 + 20) ; INLIB (sf_close (w)) ; }
							INLIB (h->sf = sf_open (h->path, SFM_READ, &info)) ;
							}
						t = vl_hash_u64 (h->sf != NULL, vl_hash_u64 (info.frames, vl_hash_u64 (info.format, t))) ; } break ;
			case 1 : { sf_count_t r = vl_read (h->sf, T_SHORT, 1, sb, B + 1) ; t = vl_hash_u64 (r, t) ; if (r > 0) t = vl_hash (sb, r * ch * 2, t) ; } break ;
			case 2 : { sf_count_t r ; INLIB (r = sf_seek (h->sf, 1, SEEK_SET)) ; t = vl_hash_u64 (r, t) ; } break ;
			case 3 : { sf_count_t r = vl_read (h->sf, T_FLOAT, 0, fb, 3 * ch) ; t = vl_hash_u64 (r, t) ; if (r > 0) t = vl_hash (fb, r * 4, t) ; } break ;
			case 4 : { sf_count_t r ; INLIB (r = sf_seek (h->sf, -1, SEEK_SET)) ; t = vl_hash_u64 (r, t) ; } break ;	/* failing call */
			case 5 : { int r ; INLIB (r = sf_command (h->sf, SFC_GET_NORM_FLOAT, NULL, 0)) ; t = vl_hash_u64 (r, t) ; } break ;
			case 6 : { sf_count_t r = vl_read (h->sf, T_SHORT, 1, sb, 2 * B + 9) ; t = vl_hash_u64 (r, t) ; if (r > 0) t = vl_hash (sb, r * ch * 2, t) ; } break ;
			case 7 : { int r ; INLIB (r = sf_close (h->sf)) ; h->sf = NULL ; t = vl_hash_u64 (r, t) ; } break ;
			}
	if (h->sf) { int e ; INLIB (e = sf_error (h->sf)) ; t = vl_hash_u64 (e, t) ; }
	return t ;
}

static uint64_t final_hash (Handle *h) { return h->s->kind >= 2 ? file_hash (h->path) : md_hash (&h->dev) ; }

static void run_solo (Script *s, uint64_t *tr)
{	Handle h ; memset (&h, 0, sizeof (h)) ; h.s = s ; md_init (&h.dev) ;
	for (int k = 0 ; k < NSTEPS ; k++) tr [k] = do_step (&h, k) ;
	tr [NSTEPS] = final_hash (&h) ;
	if (s->kind >= 2) path_cleanup (h.path) ;
	md_free (&h.dev) ;
}

/* the reference transcript comes from a child process that has used the library for nothing else */
static int solo_in_child (Script *s)
{	int fds [2] ; pid_t pid ; uint64_t tr [NSTEPS + 1] ; int status ;
	if (pipe (fds) != 0) return 0 ;
	pid = fork () ;
	if (pid == 0)
	{	close (fds [0]) ; run_solo (s, tr) ;
		if (write (fds [1], tr, sizeof (tr)) != (ssize_t) sizeof (tr)) _exit (2) ;
		_exit (0) ;
		}
	close (fds [1]) ;
	s->solo_ok = (read (fds [0], s->solo, sizeof (s->solo)) == (ssize_t) sizeof (s->solo)) ;
	close (fds [0]) ; waitpid (pid, &status, 0) ;
	return s->solo_ok ;
}

static void build_scripts (void)
{	MemDev d ; int nrepl = 0 ; md_init (&d) ; nscripts = 0 ;
	for (int i = 0 ; rep_formats [i] ; i++)
	{	const Fmt *f = fmt_by_name (rep_formats [i]) ; int ch ;
		if (! f) continue ;
		ch = rt_accepts (f, 2, fmt_default_rate (f)) ? 2 : 1 ;
		for (int kind = 0 ; kind < 2 ; kind++)
		{	Script *s = &scripts [nscripts] ; memset (s, 0, sizeof (*s)) ;
			s->f = f ; s->ch = ch ; s->kind = kind ; s->B = fmt_block (f, ch, fmt_default_rate (f)) ;
			if (kind == 1)
			{	/* The file a read script reads is written in a child process: this process must not have used the library for
				** anything before the solo references are taken (a fork of a process that has already written, say, a W64/IMA
				** header is not a fresh process, and state kept from that would be in the reference too). */
				int fds [2] ; pid_t pid ; int status ; sf_count_t len = 0 ;
				if (pipe (fds) != 0) continue ;
				if ((pid = fork ()) == 0)
				{	SF_INFO info ; SNDFILE *sf ; int B = s->B > 1 && s->B < 1200 ? s->B : 16 ; long N = 3 * B + 20 ; sf_count_t done = 0 ;
					close (fds [0]) ;
					md_reset (&d) ; rt_info (&info, f, ch, fmt_default_rate (f)) ; sf = md_open (&d, SFM_WRITE, &info) ;
					if (sf) { vl_write (sf, T_SHORT, 1, sdata, N) ; INLIB (sf_close (sf)) ; len = d.len ; }
					if (write (fds [1], &len, sizeof (len)) != (ssize_t) sizeof (len)) _exit (2) ;
					while (done < len) { ssize_t w = write (fds [1], d.data + done, len - done) ; if (w <= 0) _exit (2) ; done += w ; }
					_exit (0) ;
					}
				close (fds [1]) ;
				if (pid > 0 && read (fds [0], &len, sizeof (len)) == (ssize_t) sizeof (len) && len > 0)
				{	sf_count_t got = 0 ; s->seed = malloc (len + 1) ;
					while (got < len) { ssize_t r = read (fds [0], s->seed + got, len - got) ; if (r <= 0) break ; got += r ; }
					s->seed_len = got == len ? len : 0 ;
					}
				close (fds [0]) ; if (pid > 0) waitpid (pid, &status, 0) ;
				if (s->seed_len <= 0) continue ;
				}
			nscripts ++ ;
			if (kind == 0 && f->is_float && nrepl < 2)
			{	Script *v = &scripts [nscripts++] ; *v = *s ; v->variant = 1 ; nrepl ++ ; }
			}
		}
	{	static const char *pf [] = { "sd2/pcm_16/file", "sd2/pcm_24/file", "wav/pcm_16/file", "aiff/pcm_16/file", "caf/alac_16/file", "au/ulaw/file", NULL } ;
		for (int i = 0 ; pf [i] ; i++)
		{	const Fmt *f = fmt_by_name (pf [i]) ; if (! f) continue ;
			for (int kind = 2 ; kind < 4 ; kind++)
			{	Script *s = &scripts [nscripts++] ; memset (s, 0, sizeof (*s)) ;
				s->f = f ; s->ch = 2 ; s->kind = kind ; s->B = fmt_block (f, 2, fmt_default_rate (f)) ;
				}
			}
		}
	md_free (&d) ;
}

static const char *sname (const Script *s) { static const char *kn [4] = { "W", "R", "Wpath", "Rpath" } ; return rt_sig ("%s:%s%s", s->f->name, kn [s->kind], s->variant ? "repl" : "") ; }

/* run one schedule (sequence of handle indices, one per step) over n handles and compare with the solo transcripts */
static void run_schedule (Script **ss, int n, const int *order, int total)
{	Handle h [4] ; uint64_t oh = VL_H0 ;
	for (int i = 0 ; i < n ; i++) { memset (&h [i], 0, sizeof (h [i])) ; h [i].s = ss [i] ; h [i].slot = i ; md_init (&h [i].dev) ; }
	for (int t = 0 ; t < total ; t++)
	{	Handle *x = &h [order [t]] ;
		x->tr [x->step] = do_step (x, x->step) ; x->step ++ ;
		vl_count_transitions (1) ;
		}
	for (int i = 0 ; i < n ; i++)
	{	h [i].tr [NSTEPS] = final_hash (&h [i]) ;
		if (h [i].s->kind >= 2) path_cleanup (h [i].path) ;
		if (ss [i]->solo_ok)
			for (int k = 0 ; k <= NSTEPS ; k++)
				if (h [i].tr [k] != ss [i]->solo [k])
				{	vl_violation (rt_sig ("%s|%s", rt_fam (ss [i]->f), k == NSTEPS ? "final-file-differs" : (ss [i]->kind & 1) ? "read-script-step-differs" : "write-script-step-differs"),
						"handle %d (%s) interleaved with %s%s: %s differs from the solo run", i, sname (ss [i]), sname (ss [(i + 1) % n]), n > 2 ? " and another" : "", k == NSTEPS ? "final file" : rt_sig ("step %d", k)) ;
					break ;
					}
		oh = vl_hash (h [i].tr, sizeof (h [i].tr), oh) ;
		if (h [i].sf) INLIB (sf_close (h [i].sf)) ;
		md_free (&h [i].dev) ;
		}
	vl_count_extra (0, 1) ;
	if (iso_outcome) *iso_outcome = vl_hash_u64 (oh, *iso_outcome) ;
}

/* enumerate all schedules of n scripts (NSTEPS each) with at most `bound` preemptions */
static long enum_schedules (Script **ss, int n, int bound, int *order, int depth, int cur, int *steps, int pre)
{	int total = n * NSTEPS ; long cnt = 0 ;
	if (depth == total) { run_schedule (ss, n, order, total) ; return 1 ; }
	for (int cand = 0 ; cand < n ; cand++)
	{	int cost = pre ;
		if (steps [cand] >= NSTEPS) continue ;
		if (cur >= 0 && cand != cur && steps [cur] < NSTEPS) cost ++ ;		/* switching away from a runnable handle is a preemption */
		if (cost > bound) continue ;
		order [depth] = cand ; steps [cand] ++ ;
		cnt += enum_schedules (ss, n, bound, order, depth + 1, cand, steps, cost) ;
		steps [cand] -- ;
		}
	return cnt ;
}

/* Every case runs in a fork of this process, which itself never uses the library for anything but the format catalogue:
** what a case observes then depends on that case alone (its own earlier handles included), so a violation can be replayed
** from its spec, and state left behind by one case cannot make another one fail. Counters and violation records live in
** shared memory / an append-mode file and work from the child. */
typedef struct { int kind, a, b, c, bound ; } IsoCase ;
static void iso_case_body (const IsoCase *k) ;

static void iso_case (const IsoCase *k)
{	pid_t pid ; int status = 0 ;
	if (! iso_outcome) iso_outcome = mmap (NULL, 4096, PROT_READ | PROT_WRITE, MAP_SHARED | MAP_ANONYMOUS, -1, 0) ;
	*iso_outcome = VL_H0 ;
	fflush (NULL) ;
	pid = fork () ;
	if (pid == 0) { iso_case_body (k) ; fflush (NULL) ; _exit (0) ; }
	if (pid < 0) { iso_case_body (k) ; return ; }
	waitpid (pid, &status, 0) ;
	if (WIFSIGNALED (status)) { signal (WTERMSIG (status), SIG_DFL) ; raise (WTERMSIG (status)) ; _exit (99) ; }	/* let the supervisor attribute the crash to this case */
	if (WIFEXITED (status) && WEXITSTATUS (status) != 0) _exit (WEXITSTATUS (status)) ;
}

void harness_run (void)
{	fmt_build () ; init_data () ; build_scripts () ;
	/* solo references (fresh child each) and independence of earlier use */
	for (int i = 0 ; i < nscripts ; i++) solo_in_child (&scripts [i]) ;
	for (int i = 0 ; i < nscripts ; i++)
		if (vl_case ("C19 earlier-use script=%s", sname (&scripts [i])))
		{	IsoCase k = { 0, i, 0, 0, 0 } ; iso_case (&k) ;
			vl_root_count ("earlier-use") ; vl_count_states (1) ;
			vl_end (1, *iso_outcome) ;
			}
	/* pairs (with repetition: the same script twice is the sharpest driver for hidden static state) */
	for (int a = 0 ; a < nscripts ; a++)
		for (int b = a ; b < nscripts ; b++)
		{	int bound = vl_opts.thorough ? 3 : 2 ;
			if (vl_case ("C19 pair a=%s b=%s preemptions<=%d", sname (&scripts [a]), sname (&scripts [b]), bound))
			{	IsoCase k = { 1, a, b, 0, bound } ; iso_case (&k) ;
				vl_root_count ("pairs") ;
				vl_end (1, *iso_outcome) ;
				}
			}
	/* triples: a rotating selection */
	for (int t = 0 ; t < (vl_opts.thorough ? 400 : 80) ; t++)
	{	int a = (t * 7) % nscripts, b = (t * 13 + 5) % nscripts, c = (t * 29 + 11) % nscripts ;
		if (vl_case ("C19 triple a=%s b=%s c=%s preemptions<=2", sname (&scripts [a]), sname (&scripts [b]), sname (&scripts [c])))
		{	IsoCase k = { 2, a, b, c, 2 } ; iso_case (&k) ;
			vl_root_count ("triples") ;
			vl_end (1, *iso_outcome) ;
			}
		}
	/* thorough: all merges of two scripts for the same-codec pairs */
	if (vl_opts.thorough)
		for (int a = 0 ; a < nscripts ; a++)
			for (int b = a ; b < nscripts && b <= a + 1 ; b++)
				if (vl_case ("C19 allmerges a=%s b=%s", sname (&scripts [a]), sname (&scripts [b])))
				{	IsoCase k = { 1, a, b, 0, 2 * NSTEPS } ; iso_case (&k) ;
					vl_root_count ("allmerges") ;
					vl_end (1, *iso_outcome) ;
					}
}

static void iso_case_body (const IsoCase *k)
{	int order [4 * NSTEPS], steps [4] = { 0, 0, 0, 0 } ; long n ;
	if (k->kind == 0)
	{	uint64_t tr [NSTEPS + 1] ; Script *s = &scripts [k->a] ;
		/* 20 unrelated open/close cycles first */
		for (int j = 0 ; j < 20 ; j++) { uint64_t junk [NSTEPS + 1] ; run_solo (&scripts [(k->a + 1 + j * 7) % nscripts], junk) ; }
		run_solo (s, tr) ; if (iso_outcome) *iso_outcome = vl_hash (tr, sizeof (tr), *iso_outcome) ;
		if (! s->solo_ok) vl_violation (rt_sig ("%s|solo-child-failed", rt_fam (s->f)), "the solo run in a fresh process did not complete") ;
		else
			for (int j = 0 ; j <= NSTEPS ; j++)
				if (tr [j] != s->solo [j]) { vl_violation (rt_sig ("%s|depends-on-earlier-use", rt_fam (s->f)), "%s: %s differs between a fresh process and a process that used the library before", sname (s), j == NSTEPS ? "final file" : rt_sig ("step %d", j)) ; break ; }
		}
	else if (k->kind == 1)
	{	Script *ss [2] = { &scripts [k->a], &scripts [k->b] } ;
		n = enum_schedules (ss, 2, k->bound, order, 0, -1, steps, 0) ; vl_count_states (n) ;
		}
	else
	{	Script *ss [3] = { &scripts [k->a], &scripts [k->b], &scripts [k->c] } ;
		n = enum_schedules (ss, 3, k->bound, order, 0, -1, steps, 0) ; vl_count_states (n) ;
		}
}
