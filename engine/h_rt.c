/* h_rt.c - write / close / re-open / read family: C01 (lossless round trip), C04 (closed file describes
** what was written), C07 (bytes independent of write partition), C10 (sf_format_check vs reality).
*/
#include "vlib.h"
#include "rt_common.h"

const char *harness_name = "h_rt" ;

/* =================================================================== C01 */

static void c01_case (const Fmt *f, int ch, int type, long N, int g, const int32_t *seq, int seqlen)
{	SF_INFO info ; SNDFILE *sf ; long items = N * ch ; int rc ;
	void *wbuf, *rbuf ; sf_count_t w, r ; int rate = fmt_default_rate (f) ;
	int B = fmt_block (f, ch, rate) ;
	char sigp [128] ; const char *ncls ;
	uint64_t out = VL_H0 ;

	ncls = rt_nclass (N, B) ;
	snprintf (sigp, sizeof (sigp), "%s|%s|%s", rt_fam (f), ch == 1 ? "ch1" : "chN", ncls) ;

	md_reset (&rt_dev) ;
	rt_info (&info, f, ch, rate) ;
	sf = md_open (&rt_dev, SFM_WRITE, &info) ;
	if (sf == NULL)
	{	vl_note ("write-open refused: %s", sf_strerror (NULL)) ;
		vl_end (0, 1) ; return ;
		}
	wbuf = malloc (items * type_size [type] + 1) ;
	rbuf = malloc (items * type_size [type] + 1) ;
	if (seq)
	{	for (long i = 0 ; i < items ; i++) rt_put_i32 (wbuf, type, i, seq [i % seqlen], f) ;
		}
	else
		gen_fill (g, type, wbuf, items, f->width, f->is_float) ;

	w = vl_write (sf, type, 0, wbuf, items) ;
	if (w != items)
	{	int err ; INLIB (err = sf_error (sf)) ;
		vl_violation (rt_sig ("%s|write-short", sigp), "wrote %ld of %ld items, sf_error=%d (%s)", (long) w, items, err, sf_error_number (err)) ;
		}
	INLIB (rc = sf_close (sf)) ;
	if (rc != 0) vl_violation (rt_sig ("%s|close-nonzero", sigp), "sf_close returned %d", rc) ;
	out = vl_hash_u64 (md_hash (&rt_dev), out) ;

	if (w == items)
	{	SF_INFO rinfo ;
		md_rewind (&rt_dev) ;
		rt_info_read (&rinfo, f, ch, rate) ;
		sf = md_open (&rt_dev, SFM_READ, &rinfo) ;
		if (sf == NULL)
			vl_violation (rt_sig ("%s|reopen-failed", sigp), "re-open failed: %s", sf_strerror (NULL)) ;
		else
		{	if (rinfo.frames < N)
				vl_violation (rt_sig ("%s|frames-lt-N", sigp), "frames=%ld after writing N=%ld", (long) rinfo.frames, N) ;
			if (rinfo.channels != ch)
				vl_violation (rt_sig ("%s|channels", sigp), "channels=%d expected %d", rinfo.channels, ch) ;
			else
			{	memset (rbuf, 0x5A, items * type_size [type]) ;
				r = vl_read (sf, type, 0, rbuf, items) ;
				if (r != items)
					vl_violation (rt_sig ("%s|read-short", sigp), "read %ld of %ld items (frames=%ld)", (long) r, items, (long) rinfo.frames) ;
				else if (memcmp (wbuf, rbuf, items * type_size [type]) != 0)
				{	long k = rt_first_diff (wbuf, rbuf, items, type) ;
					vl_violation (rt_sig ("%s|mismatch%s", sigp, g >= G_NOISE1 && ! seq ? "-noise" : ""), "first difference at item %ld of %ld: wrote %s read %s",
						k, items, rt_fmt_item (wbuf, type, k, 0), rt_fmt_item (rbuf, type, k, 1)) ;
					}
				out = vl_hash (rbuf, items * type_size [type], out) ;
				}
			INLIB (sf_close (sf)) ;
			}
		}
	free (wbuf) ; free (rbuf) ;
	vl_end (N > 0 && (seq || g != G_ZERO), out) ;
}

static void run_c01 (void)
{	static const int ch_quick [] = { 1, 2, 3, 0 }, ch_thorough [] = { 1, 2, 3, 5, 8, 0 } ;
	const int *chs = vl_opts.thorough ? ch_thorough : ch_quick ;
	static const int32_t alpha [5] = { INT32_MIN, -1, 0, 1, INT32_MAX } ;

	for (int fi = 0 ; fi < fmt_count ; fi++)
	{	const Fmt *f = &fmt_list [fi] ;
		if (! f->lossless || f->needs_path) continue ;
		if (! vl_opts.thorough && (f->format & SF_FORMAT_ENDMASK) == SF_ENDIAN_CPU) continue ;
		for (const int *pc = chs ; *pc ; pc++)
		{	int ch = *pc, rate = fmt_default_rate (f) ;
			if (! rt_accepts (f, ch, rate)) continue ;
			int B = fmt_block (f, ch, rate) ;
			for (int type = 0 ; type < T_NTYPES ; type++)
			{	long lens [40] ; int nl ;
				if (! (f->lossless & (1 << type))) continue ;
				nl = rt_len_alphabet (lens, B, 8192 / type_size [type], ch, vl_opts.thorough) ;
				for (int li = 0 ; li < nl ; li++)
					for (int g = 0 ; g < G_NGEN ; g++)
					{	if (! vl_opts.thorough && (g == G_NOISE3 || g == G_NOISE4) && ! f->is_float) continue ;
						if (lens [li] == 0 && g != G_ZERO) continue ;
						if (lens [li] > 0 && lens [li] * ch > 3 * 8192 && g != G_NOISE1 && g != G_POSCODE && g != G_ALTITEM) continue ;
						if (vl_case ("C01 fmt=%s ch=%d type=%s N=%ld gen=%s", f->name, ch, type_names [type], lens [li], gen_names [g]))
						{	vl_root_count (f->name) ;
							c01_case (f, ch, type, lens [li], g, NULL, 0) ;
							}
						}
				/* small-scope exhaustive: all sequences over {min,-1,0,1,max} with N*ch <= 4 items */
				if (ch <= 2)
				{	for (int len = ch ; len <= 4 ; len += ch)
					{	int total = 1 ; for (int k = 0 ; k < len ; k++) total *= 5 ;
						for (int code = 0 ; code < total ; code ++)
						{	if (vl_case ("C01 fmt=%s ch=%d type=%s seq=%d/%d", f->name, ch, type_names [type], code, len))
							{	int32_t seq [4] ; int c = code ;
								for (int k = 0 ; k < len ; k++) { seq [k] = alpha [c % 5] ; c /= 5 ; }
								vl_root_count (f->name) ;
								c01_case (f, ch, type, len / ch, 0, seq, len) ;
								}
							}
						}
					}
				}
			}
		}
}

/* =================================================================== C04 */

/* write N frames in the given split (0: one call, 1: 1 + rest, 2: B-1 + rest [B<=1: 2 + rest]) ; returns frames accepted, -1 open failure */
static long c04_write (const Fmt *f, int ch, int rate, sf_count_t open_frames, int type, long N, int split, int B, int *close_rc)
{	SF_INFO info ; SNDFILE *sf ; long items = N * ch, done = 0, first ; void *buf ;
	md_reset (&rt_dev) ;
	rt_info (&info, f, ch, rate) ; info.frames = open_frames ;
	sf = md_open (&rt_dev, SFM_WRITE, &info) ;
	if (sf == NULL) return -1 ;
	buf = malloc (items * type_size [type] + 1) ;
	gen_fill (G_POSCODE, type, buf, items, f->width ? f->width : 16, f->is_float) ;
	first = split == 0 ? N : split == 1 ? 1 : (B > 1 ? B - 1 : 2) ;
	if (first > N) first = N ;
	if (first > 0)
	{	sf_count_t w = vl_write (sf, type, 1, buf, first) ;
		done += w > 0 ? w : 0 ;
		}
	if (N - first > 0 && done == first)
	{	sf_count_t w = vl_write (sf, type, 0, (char *) buf + first * ch * type_size [type], (N - first) * ch) ;
		done += w > 0 ? w / ch : 0 ;
		}
	INLIB (*close_rc = sf_close (sf)) ;
	free (buf) ;
	return done ;
}

static void c04_case (const Fmt *f, int ch, int rate, sf_count_t open_frames, int type, long N, int split)
{	int B = fmt_block (f, ch, rate), close_rc = 0, major = f->format & SF_FORMAT_TYPEMASK ;
	long acc ; SF_INFO rinfo ; SNDFILE *sf ; char sigp [128] ; uint64_t out = VL_H0, base_hash = 0 ;
	const char *rcls = rate == fmt_default_rate (f) ? "rate-def" : rate < 10 ? "rate<10" : rate >= (1 << 30) ? "rate>=2^30" :
						fmt_rate_representable (f, rate, ch) ? "rate-repr" : "rate-unrepr" ;

	/* the rate class is part of the signature only for the non-default rates (those cases exist only for N in {0,3}) */
	if (rate == fmt_default_rate (f))
		snprintf (sigp, sizeof (sigp), "%s|%s|%s", rt_fam (f), ch == 1 ? "ch1" : "chN", rt_nclass (N, B)) ;
	else
		snprintf (sigp, sizeof (sigp), "%s|%s", major_name (f->format), rcls) ;

	if (open_frames != 0)
	{	/* reference bytes: the same writes with frames = 0 at open */
		acc = c04_write (f, ch, rate, 0, type, N, split, B, &close_rc) ;
		base_hash = md_hash (&rt_dev) ;
		}
	acc = c04_write (f, ch, rate, open_frames, type, N, split, B, &close_rc) ;
	if (acc < 0)
	{	vl_note ("write-open refused: %s", sf_strerror (NULL)) ; vl_end (0, 2) ; return ; }
	if (acc != N)
		vl_violation (rt_sig ("%s|write-count", sigp), "write calls accepted %ld of %ld frames", acc, N) ;
	if (close_rc != 0) vl_violation (rt_sig ("%s|close-nonzero", sigp), "sf_close returned %d", close_rc) ;
	if (open_frames != 0 && md_hash (&rt_dev) != base_hash)
		vl_violation (rt_sig ("%s|open-frames-influence", sigp), "file bytes differ when SF_INFO.frames=%lld is passed at open", (long long) open_frames) ;
	out = vl_hash_u64 (md_hash (&rt_dev), out) ;

	md_rewind (&rt_dev) ;
	rt_info_read (&rinfo, f, ch, rate) ;
	rt_dev.budget = 64 + 64 * (rt_dev.len + 8 * (acc + 8) * ch * 4) ;
	sf = md_open (&rt_dev, SFM_READ, &rinfo) ;
	if (sf == NULL)
	{	vl_violation (rt_sig ("%s|reopen-failed", sigp), "re-open failed: %s", sf_strerror (NULL)) ;
		vl_end (1, out) ; return ;
		}
	rt_dump_log (sf) ;
	if (rinfo.channels != ch) vl_violation (rt_sig ("%s|channels", sigp), "channels %d != %d", rinfo.channels, ch) ;
	if ((rinfo.format & (SF_FORMAT_TYPEMASK | SF_FORMAT_SUBMASK)) != (f->format & (SF_FORMAT_TYPEMASK | SF_FORMAT_SUBMASK)))
		vl_violation (rt_sig ("%s|format", sigp), "format 0x%x != 0x%x", rinfo.format, f->format) ;
	{	int req_end = f->format & SF_FORMAT_ENDMASK, got_end = rinfo.format & SF_FORMAT_ENDMASK ;
		if (req_end == SF_ENDIAN_CPU) req_end = SF_ENDIAN_LITTLE ;
		if (req_end != SF_ENDIAN_FILE && got_end != SF_ENDIAN_FILE && major != SF_FORMAT_RAW && req_end != got_end)
			vl_violation (rt_sig ("%s|endian", sigp), "endian bits 0x%x != requested 0x%x", got_end, req_end) ;
		}
	if (major != SF_FORMAT_RAW)
	{	if (fmt_rate_representable (f, rate, ch))
		{	if (rinfo.samplerate != rate)
				vl_violation (rt_sig ("%s|samplerate", sigp), "samplerate %d != requested %d", rinfo.samplerate, rate) ;
			}
		else if (rinfo.samplerate < 1)
			vl_violation (rt_sig ("%s|samplerate<1", sigp), "samplerate %d for requested %d", rinfo.samplerate, rate) ;
		}
	if (acc == N)
	{	long F = rinfo.frames ; int ok ;
		if (B == 0)
			ok = (major == SF_FORMAT_RAW) ? F >= N : F == N ;
		else if (B == 1)
		{	int bw = f->is_float ? f->is_float / 8 : f->width ? (f->width + 7) / 8 : 1 ;
			int odd = ((N * bw * ch) & 1) && f->pads_odd ;
			ok = (F == N) || (odd && F == N + 1) ;
			}
		else
			ok = (F >= N && F < N + B) ;
		if (! ok)
			vl_violation (rt_sig ("%s|frames%s", sigp, F < N ? "<N" : F == N + 1 ? "=N+1" : ">N"), "frames=%ld after writing N=%ld (block %d)", F, N, B) ;
		/* reading delivers exactly F frames then EOF, with each read type */
		for (int t = 0 ; t < T_NTYPES ; t++)
		{	long total = 0, got ; void *rb = malloc (1000 * ch * 8) ;
			sf_count_t pos ; INLIB (pos = sf_seek (sf, 0, SEEK_SET)) ;
			if (pos != 0 && t > 0) { free (rb) ; break ; }
			while ((got = vl_read (sf, t, 1, rb, 1000)) > 0 && total <= F + 2000) total += got ;
			if (total != F)
			{	vl_violation (rt_sig ("%s|readable%s", sigp, total < F ? "<F" : ">F"), "%s reads delivered %ld frames, header says %ld (N=%ld)", type_names [t], total, F, N) ;
				free (rb) ; break ;
				}
			got = vl_read (sf, t, 1, rb, 3) ;
			if (got != 0) vl_violation (rt_sig ("%s|read-after-eof", sigp), "read after EOF returned %ld", got) ;
			out = vl_hash_u64 (total, out) ;
			free (rb) ;
			}
		}
	INLIB (sf_close (sf)) ;
	vl_end (1, out) ;
}

void run_c04 (void)
{	static const int rates [] = { 1, 2, 7, 4000, 8000, 11025, 44100, 96000, 192000, 10000000, 1000000001,
		255, 256, 257, 32767, 32768, 32769, 65535, 65536, 65537, 1048575, 1048576, 1048577, 2097151, 2097152, 2097153,
		8388607, 8388608, 8388609, 16777215, 16777216, 16777217, 1073741823, 1073741824, 1073741825, 2147483647, 40000, 50000, 0 } ;
	static const sf_count_t open_frames [] = { 777, -5, (sf_count_t) 1 << 40, 0 } ;
	static const int chs [] = { 1, 2, 5, 0 } ;

	for (int fi = 0 ; fi < fmt_count ; fi++)
	{	const Fmt *f = &fmt_list [fi] ;
		if (f->needs_path) continue ;
		if (! vl_opts.thorough && (f->format & SF_FORMAT_ENDMASK) == SF_ENDIAN_CPU) continue ;
		for (const int *pc = chs ; *pc ; pc++)
		{	int ch = *pc, rate = fmt_default_rate (f) ;
			long lens [40] ; int nl ;
			if (! rt_accepts (f, ch, rate)) continue ;
			if (ch == 5 && ! vl_opts.thorough && (f->format & SF_FORMAT_ENDMASK) != SF_ENDIAN_FILE) continue ;
			int B = fmt_block (f, ch, rate) ;
			nl = rt_len_alphabet (lens, B, 2048, ch, vl_opts.thorough) ;
			for (int li = 0 ; li < nl ; li++)
				for (int split = 0 ; split < 3 ; split++)
				{	int type = (li + split + ch) % T_NTYPES ;
					if (lens [li] < 2 && split > 0) continue ;
					if (vl_case ("C04 fmt=%s ch=%d rate=%d openframes=0 type=%s N=%ld split=%d", f->name, ch, rate, type_names [type], lens [li], split))
					{	vl_root_count (f->name) ; c04_case (f, ch, rate, 0, type, lens [li], split) ; }
					}
			for (int ri = 0 ; rates [ri] && f->rate_kind != RATE_NONE ; ri++)
				for (int n = 0 ; n <= 3 ; n += 3)
				{	if (! rt_accepts (f, ch, rates [ri])) continue ;
					if (vl_case ("C04 fmt=%s ch=%d rate=%d openframes=0 type=short N=%d split=0", f->name, ch, rates [ri], n))
					{	vl_root_count (f->name) ; c04_case (f, ch, rates [ri], 0, T_SHORT, n, 0) ; }
					}
			for (int oi = 0 ; open_frames [oi] ; oi++)
			{	long ns [3] = { 0, 3, B > 1 ? B + 1 : 257 } ;
				for (int k = 0 ; k < 3 ; k++)
					if (vl_case ("C04 fmt=%s ch=%d rate=%d openframes=%lld type=int N=%ld split=1", f->name, ch, rate, (long long) open_frames [oi], ns [k]))
					{	vl_root_count (f->name) ; c04_case (f, ch, rate, open_frames [oi], T_INT, ns [k], 1) ; }
				}
			}
		}
}

/* =================================================================== dispatch */

void run_c04 (void) ;
void run_c07 (void) ;
void run_c10 (void) ;

void harness_run (void)
{	fmt_build () ;
	md_init (&rt_dev) ;
	if (! strcmp (vl_opts.prop, "C01")) run_c01 () ;
	else if (! strcmp (vl_opts.prop, "C04")) run_c04 () ;
	else if (! strcmp (vl_opts.prop, "C07")) run_c07 () ;
	else if (! strcmp (vl_opts.prop, "C10")) run_c10 () ;
	else { fprintf (stderr, "h_rt: unknown property %s\n", vl_opts.prop) ; exit (3) ; }
}

void run_c07 (void) { }
void run_c10 (void) { }
