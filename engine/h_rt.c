/* h_rt.c - write / close / re-open / read family: C01 (lossless round trip), C04 (closed file describes
** what was written), C07 (bytes independent of write partition), C10 (sf_format_check vs reality).
*/
#include "vlib.h"
#include "rt_common.h"

const char *harness_name = "h_rt" ;

/* =================================================================== C01 */

static void c01_case (const Fmt *f, int ch, int type, long N, int g, const int32_t *seq, int seqlen)
{	SF_INFO info ; SNDFILE *sf ; long items = N * ch ; int rc ;
	void *wbuf, *rbuf ; sf_count_t w, r ; int rate = fmt_default_rate (f) ;
	int B = fmt_block (f, ch, rate) ;
	char sigp [128] ; const char *ncls ;
	uint64_t out = VL_H0 ;

	ncls = rt_nclass (N, B) ;
	snprintf (sigp, sizeof (sigp), "%s|%s|%s", rt_fam (f), ch == 1 ? "ch1" : "chN", ncls) ;

	md_reset (&rt_dev) ;
	rt_info (&info, f, ch, rate) ;
	sf = md_open (&rt_dev, SFM_WRITE, &info) ;
	if (sf == NULL)
	{	vl_note ("write-open refused: %s", sf_strerror (NULL)) ;
		vl_end (0, 1) ; return ;
		}
	wbuf = malloc (items * type_size [type] + 1) ;
	rbuf = malloc (items * type_size [type] + 1) ;
	if (seq)
	{	for (long i = 0 ; i < items ; i++) rt_put_i32 (wbuf, type, i, seq [i % seqlen], f) ;
		}
	else
		gen_fill (g, type, wbuf, items, f->width, f->is_float) ;

	w = vl_write (sf, type, 0, wbuf, items) ;
	if (w != items)
	{	int err ; INLIB (err = sf_error (sf)) ;
		vl_violation (rt_sig ("%s|write-short", sigp), "wrote %ld of %ld items, sf_error=%d (%s)", (long) w, items, err, sf_error_number (err)) ;
		}
	INLIB (rc = sf_close (sf)) ;
	if (rc != 0) vl_violation (rt_sig ("%s|close-nonzero", sigp), "sf_close returned %d", rc) ;
	out = vl_hash_u64 (md_hash (&rt_dev), out) ;

	if (w == items)
	{	SF_INFO rinfo ;
		md_rewind (&rt_dev) ;
		rt_info_read (&rinfo, f, ch, rate) ;
		sf = md_open (&rt_dev, SFM_READ, &rinfo) ;
		if (sf == NULL)
			vl_violation (rt_sig ("%s|reopen-failed", sigp), "re-open failed: %s", sf_strerror (NULL)) ;
		else
		{	if (rinfo.frames < N)
				vl_violation (rt_sig ("%s|frames-lt-N", sigp), "frames=%ld after writing N=%ld", (long) rinfo.frames, N) ;
			if (rinfo.channels != ch)
				vl_violation (rt_sig ("%s|channels", sigp), "channels=%d expected %d", rinfo.channels, ch) ;
			else
			{	memset (rbuf, 0x5A, items * type_size [type]) ;
				r = vl_read (sf, type, 0, rbuf, items) ;
				if (r != items)
					vl_violation (rt_sig ("%s|read-short", sigp), "read %ld of %ld items (frames=%ld)", (long) r, items, (long) rinfo.frames) ;
				else if (memcmp (wbuf, rbuf, items * type_size [type]) != 0)
				{	long k = rt_first_diff (wbuf, rbuf, items, type) ;
					vl_violation (rt_sig ("%s|mismatch%s", sigp, g >= G_NOISE1 && ! seq ? "-noise" : ""), "first difference at item %ld of %ld: wrote %s read %s",
						k, items, rt_fmt_item (wbuf, type, k, 0), rt_fmt_item (rbuf, type, k, 1)) ;
					}
				out = vl_hash (rbuf, items * type_size [type], out) ;
				}
			INLIB (sf_close (sf)) ;
			}
		}
	free (wbuf) ; free (rbuf) ;
	vl_end (N > 0 && (seq || g != G_ZERO), out) ;
}

static void run_c01 (void)
{	static const int ch_quick [] = { 1, 2, 3, 7, 0 }, ch_thorough [] = { 1, 2, 3, 5, 7, 8, 11, 0 } ;	/* 7 and 11 divide none of the staging sizes (2040, 2048, 4096; 11 also not 2730) */
	const int *chs = vl_opts.thorough ? ch_thorough : ch_quick ;
	static const int32_t alpha [5] = { INT32_MIN, -1, 0, 1, INT32_MAX } ;

	for (int fi = 0 ; fi < fmt_count ; fi++)
	{	const Fmt *f = &fmt_list [fi] ;
		if (! f->lossless || f->needs_path) continue ;
		if (! vl_opts.thorough && (f->format & SF_FORMAT_ENDMASK) == SF_ENDIAN_CPU) continue ;
		for (const int *pc = chs ; *pc ; pc++)
		{	int ch = *pc, rate = fmt_default_rate (f) ;
			if (! rt_accepts (f, ch, rate)) continue ;
			int B = fmt_block (f, ch, rate) ;
			for (int type = 0 ; type < T_NTYPES ; type++)
			{	long lens [40] ; int nl ;
				if (! (f->lossless & (1 << type))) continue ;
				nl = rt_len_alphabet (lens, B, 8192 / type_size [type], ch, vl_opts.thorough) ;
				for (int li = 0 ; li < nl ; li++)
					for (int g = 0 ; g < G_NGEN ; g++)
					{	if (! vl_opts.thorough && (g == G_NOISE3 || g == G_NOISE4) && ! f->is_float) continue ;
						if (lens [li] == 0 && g != G_ZERO) continue ;
						if (lens [li] > 0 && lens [li] * ch > 3 * 8192 && g != G_NOISE1 && g != G_POSCODE && g != G_ALTITEM) continue ;
						if (vl_case ("C01 fmt=%s ch=%d type=%s N=%ld gen=%s", f->name, ch, type_names [type], lens [li], gen_names [g]))
						{	vl_root_count (f->name) ;
							c01_case (f, ch, type, lens [li], g, NULL, 0) ;
							}
						}
				/* small-scope exhaustive: all sequences over {min,-1,0,1,max} with N*ch <= 4 items */
				if (ch <= 2)
				{	for (int len = ch ; len <= 4 ; len += ch)
					{	int total = 1 ; for (int k = 0 ; k < len ; k++) total *= 5 ;
						for (int code = 0 ; code < total ; code ++)
						{	if (vl_case ("C01 fmt=%s ch=%d type=%s seq=%d/%d", f->name, ch, type_names [type], code, len))
							{	int32_t seq [4] ; int c = code ;
								for (int k = 0 ; k < len ; k++) { seq [k] = alpha [c % 5] ; c /= 5 ; }
								vl_root_count (f->name) ;
								c01_case (f, ch, type, len / ch, 0, seq, len) ;
								}
							}
						}
					}
				}
			}
		}
}

/* =================================================================== C04 */

/* write N frames in the given split (0: one call, 1: 1 + rest, 2: B-1 + rest [B<=1: 2 + rest]) ; returns frames accepted, -1 open failure */
static int c04_trailer ;	/* a string set after the audio: the container's string chunk then lies behind the audio data */

static long c04_write (const Fmt *f, int ch, int rate, sf_count_t open_frames, int type, long N, int split, int B, int *close_rc)
{	SF_INFO info ; SNDFILE *sf ; long items = N * ch, done = 0, first ; void *buf ;
	md_reset (&rt_dev) ;
	rt_info (&info, f, ch, rate) ; info.frames = open_frames ;
	sf = md_open (&rt_dev, SFM_WRITE, &info) ;
	if (sf == NULL) return -1 ;
	buf = malloc (items * type_size [type] + 1) ;
	gen_fill (G_POSCODE, type, buf, items, f->width ? f->width : 16, f->is_float) ;
	first = split == 0 ? N : split == 1 ? 1 : (B > 1 ? B - 1 : 2) ;
	if (first > N) first = N ;
	if (first > 0)
	{	sf_count_t w = vl_write (sf, type, 1, buf, first) ;
		done += w > 0 ? w : 0 ;
		}
	if (N - first > 0 && done == first)
	{	sf_count_t w = vl_write (sf, type, 0, (char *) buf + first * ch * type_size [type], (N - first) * ch) ;
		done += w > 0 ? w / ch : 0 ;
		}
	if (c04_trailer) INLIB (sf_set_string (sf, SF_STR_COMMENT, "a comment that lies behind the audio")) ;
	INLIB (*close_rc = sf_close (sf)) ;
	free (buf) ;
	return done ;
}

static void c04_case (const Fmt *f, int ch, int rate, sf_count_t open_frames, int type, long N, int split)
{	int B = fmt_block (f, ch, rate), close_rc = 0, major = f->format & SF_FORMAT_TYPEMASK ;
	long acc ; SF_INFO rinfo ; SNDFILE *sf ; char sigp [128] ; uint64_t out = VL_H0, base_hash = 0 ;
	const char *rcls = rate == fmt_default_rate (f) ? "rate-def" : rate < 10 ? "rate<10" : rate >= (1 << 30) ? "rate>=2^30" :
						fmt_rate_representable (f, rate, ch) ? "rate-repr" : "rate-unrepr" ;

	/* the rate class is part of the signature only for the non-default rates (those cases exist only for N in {0,3}) */
	if (rate == fmt_default_rate (f))
		snprintf (sigp, sizeof (sigp), "%s|%s|%s", rt_fam (f), ch == 1 ? "ch1" : "chN", rt_nclass (N, B)) ;
	else
		snprintf (sigp, sizeof (sigp), "%s|%s", major_name (f->format), rcls) ;

	if (open_frames != 0)
	{	/* reference bytes: the same writes with frames = 0 at open */
		acc = c04_write (f, ch, rate, 0, type, N, split, B, &close_rc) ;
		base_hash = md_hash (&rt_dev) ;
		}
	acc = c04_write (f, ch, rate, open_frames, type, N, split, B, &close_rc) ;
	if (acc < 0)
	{	vl_note ("write-open refused: %s", sf_strerror (NULL)) ; vl_end (0, 2) ; return ; }
	if (acc != N)
		vl_violation (rt_sig ("%s|write-count", sigp), "write calls accepted %ld of %ld frames", acc, N) ;
	if (close_rc != 0) vl_violation (rt_sig ("%s|close-nonzero", sigp), "sf_close returned %d", close_rc) ;
	if (open_frames != 0 && md_hash (&rt_dev) != base_hash)
		vl_violation (rt_sig ("%s|open-frames-influence", sigp), "file bytes differ when SF_INFO.frames=%lld is passed at open", (long long) open_frames) ;
	out = vl_hash_u64 (md_hash (&rt_dev), out) ;

	md_rewind (&rt_dev) ;
	rt_info_read (&rinfo, f, ch, rate) ;
	rt_dev.budget = 64 + 64 * (rt_dev.len + 8 * (acc + 8) * ch * 4) ;
	sf = md_open (&rt_dev, SFM_READ, &rinfo) ;
	if (sf == NULL)
	{	vl_violation (rt_sig ("%s|reopen-failed", sigp), "re-open failed: %s", sf_strerror (NULL)) ;
		vl_end (1, out) ; return ;
		}
	rt_dump_log (sf) ;
	if (rinfo.channels != ch) vl_violation (rt_sig ("%s|channels", sigp), "channels %d != %d", rinfo.channels, ch) ;
	if ((rinfo.format & (SF_FORMAT_TYPEMASK | SF_FORMAT_SUBMASK)) != (f->format & (SF_FORMAT_TYPEMASK | SF_FORMAT_SUBMASK)))
		vl_violation (rt_sig ("%s|format", sigp), "format 0x%x != 0x%x", rinfo.format, f->format) ;
	{	int req_end = f->format & SF_FORMAT_ENDMASK, got_end = rinfo.format & SF_FORMAT_ENDMASK ;
		if (req_end == SF_ENDIAN_CPU) req_end = SF_ENDIAN_LITTLE ;
		if (req_end != SF_ENDIAN_FILE && got_end != SF_ENDIAN_FILE && major != SF_FORMAT_RAW && req_end != got_end)
			vl_violation (rt_sig ("%s|endian", sigp), "endian bits 0x%x != requested 0x%x", got_end, req_end) ;
		}
	if (major != SF_FORMAT_RAW)
	{	if (fmt_rate_representable (f, rate, ch))
		{	if (rinfo.samplerate != rate)
				vl_violation (rt_sig ("%s|samplerate", sigp), "samplerate %d != requested %d", rinfo.samplerate, rate) ;
			}
		else if (rinfo.samplerate < 1)
			vl_violation (rt_sig ("%s|samplerate<1", sigp), "samplerate %d for requested %d", rinfo.samplerate, rate) ;
		}
	if (acc == N)
	{	long F = rinfo.frames ; int ok ;
		if (B == 0)
			ok = (major == SF_FORMAT_RAW) ? F >= N : F == N ;
		else if (B == 1)
		{	int bw = f->is_float ? f->is_float / 8 : f->width ? (f->width + 7) / 8 : 1 ;
			int odd = ((N * bw * ch) & 1) && f->pads_odd ;
			ok = (F == N) || (odd && F == N + 1) ;
			}
		else
			ok = (F >= N && F < N + B) ;
		if (! ok)
			vl_violation (rt_sig ("%s|frames%s", sigp, F < N ? "<N" : F == N + 1 ? "=N+1" : ">N"), "frames=%ld after writing N=%ld (block %d)", F, N, B) ;
		/* reading delivers exactly F frames then EOF, with each read type */
		for (int t = 0 ; t < T_NTYPES ; t++)
		{	long total = 0, got ; void *rb = malloc (1000 * ch * 8) ;
			sf_count_t pos ; INLIB (pos = sf_seek (sf, 0, SEEK_SET)) ;
			if (pos != 0 && t > 0) { free (rb) ; break ; }
			while ((got = vl_read (sf, t, 1, rb, 1000)) > 0 && total <= F + 2000) total += got ;
			if (total != F)
			{	vl_violation (rt_sig ("%s|readable%s", sigp, total < F ? "<F" : ">F"), "%s reads delivered %ld frames, header says %ld (N=%ld)", type_names [t], total, F, N) ;
				free (rb) ; break ;
				}
			got = vl_read (sf, t, 1, rb, 3) ;
			if (got != 0) vl_violation (rt_sig ("%s|read-after-eof", sigp), "read after EOF returned %ld", got) ;
			out = vl_hash_u64 (total, out) ;
			free (rb) ;
			}
		}
	INLIB (sf_close (sf)) ;
	vl_end (1, out) ;
}

void run_c04 (void)
{	static const int rates [] = { 1, 2, 7, 4000, 8000, 11025, 44100, 96000, 192000, 10000000, 1000000001,
		255, 256, 257, 32767, 32768, 32769, 65535, 65536, 65537, 1048575, 1048576, 1048577, 2097151, 2097152, 2097153,
		8388607, 8388608, 8388609, 16777215, 16777216, 16777217, 1073741823, 1073741824, 1073741825, 2147483647, 40000, 50000, 0 } ;
	static const sf_count_t open_frames [] = { 777, -5, (sf_count_t) 1 << 40, 0 } ;
	static const int chs [] = { 1, 2, 5, 0 } ;

	for (int fi = 0 ; fi < fmt_count ; fi++)
	{	const Fmt *f = &fmt_list [fi] ;
		if (f->needs_path) continue ;
		if ((f->format & SF_FORMAT_ENDMASK) == SF_ENDIAN_CPU)
		{	/* SF_ENDIAN_CPU is the byte order of this machine: the file must be the one SF_ENDIAN_LITTLE (or _BIG on such a host) gives */
			union { uint16_t u ; uint8_t c [2] ; } probe = { 1 } ;
			const Fmt *g = fmt_find ((f->format & ~SF_FORMAT_ENDMASK) | (probe.c [0] ? SF_ENDIAN_LITTLE : SF_ENDIAN_BIG)) ;
			for (int ch = 1 ; g && ch <= 2 ; ch++)
			{	int rate = fmt_default_rate (f), B, rc ; long N ; uint64_t h1, h2 ; sf_count_t l1 ;
				if (! rt_accepts (f, ch, rate) || ! rt_accepts (g, ch, rate)) continue ;
				if (! vl_case ("C04 cpu-endian fmt=%s ch=%d", f->name, ch)) continue ;
				vl_root_count (f->name) ; B = fmt_block (f, ch, rate) ; N = B > 1 ? B + 3 : 21 ;
				if (c04_write (f, ch, rate, 0, T_SHORT, N, 0, B, &rc) != N) { vl_note ("write refused") ; vl_end (0, 0) ; continue ; }
				h1 = md_hash (&rt_dev) ; l1 = rt_dev.len ;
				if (c04_write (g, ch, rate, 0, T_SHORT, N, 0, B, &rc) != N) { vl_note ("write refused for the explicit order") ; vl_end (0, 0) ; continue ; }
				h2 = md_hash (&rt_dev) ;
				if (h1 != h2 || l1 != rt_dev.len)
					vl_violation (rt_sig ("%s|cpu-endian-differs", rt_fam (f)), "the file written with SF_ENDIAN_CPU (%lld bytes) is not the file written with the byte order of this machine (%s, %lld bytes)", (long long) l1, g->name, (long long) rt_dev.len) ;
				vl_end (1, h1) ;
				}
			}
		if (! vl_opts.thorough && (f->format & SF_FORMAT_ENDMASK) == SF_ENDIAN_CPU) continue ;
		for (const int *pc = chs ; *pc ; pc++)
		{	int ch = *pc, rate = fmt_default_rate (f) ;
			long lens [40] ; int nl ;
			if (! rt_accepts (f, ch, rate)) continue ;
			if (ch == 5 && ! vl_opts.thorough && (f->format & SF_FORMAT_ENDMASK) != SF_ENDIAN_FILE) continue ;
			int B = fmt_block (f, ch, rate) ;
			nl = rt_len_alphabet (lens, B, 2048, ch, vl_opts.thorough) ;
			for (int li = 0 ; li < nl ; li++)
				for (int split = 0 ; split < 3 ; split++)
				{	int type = (li + split + ch) % T_NTYPES ;
					if (lens [li] < 2 && split > 0) continue ;
					if (vl_case ("C04 fmt=%s ch=%d rate=%d openframes=0 type=%s N=%ld split=%d", f->name, ch, rate, type_names [type], lens [li], split))
					{	vl_root_count (f->name) ; c04_case (f, ch, rate, 0, type, lens [li], split) ; }
					{	int mj = f->format & SF_FORMAT_TYPEMASK ;
						if ((mj == SF_FORMAT_WAV || mj == SF_FORMAT_WAVEX || mj == SF_FORMAT_RF64 || mj == SF_FORMAT_AIFF || mj == SF_FORMAT_CAF) && split != 1 &&
							vl_case ("C04 fmt=%s ch=%d rate=%d openframes=0 type=%s N=%ld split=%d trailer", f->name, ch, rate, type_names [type], lens [li], split))
						{	vl_root_count (f->name) ; c04_trailer = 1 ; c04_case (f, ch, rate, 0, type, lens [li], split) ; c04_trailer = 0 ; }
						}
					}
			for (int ri = 0 ; rates [ri] && f->rate_kind != RATE_NONE ; ri++)
				for (int n = 0 ; n <= 3 ; n += 3)
				{	if (! rt_accepts (f, ch, rates [ri])) continue ;
					if (vl_case ("C04 fmt=%s ch=%d rate=%d openframes=0 type=short N=%d split=0", f->name, ch, rates [ri], n))
					{	vl_root_count (f->name) ; c04_case (f, ch, rates [ri], 0, T_SHORT, n, 0) ; }
					}
			/* lengths that cross every staging buffer (the codecs' own 2048-item ones once, the 8 KiB conversion buffer once to
			** four times depending on the type), one call, each of the four types - the rotation above gives a length only 3 types */
			{	long big [2] = { 2048 / ch + 1, 2 * (2048 / ch) + 3 } ;
				for (int bi = 0 ; bi < 2 ; bi++) for (int type = 0 ; type < T_NTYPES ; type++)
					if (vl_case ("C04 fmt=%s ch=%d rate=%d openframes=0 type=%s N=%ld split=0 big", f->name, ch, rate, type_names [type], big [bi]))
					{	vl_root_count (f->name) ; c04_case (f, ch, rate, 0, type, big [bi], 0) ; }
				}
			/* the same with 7 channels (a count that divides neither the staging buffers nor the codecs' block sizes), once per format when 5 channels are done */
			if (ch == 5 && rt_accepts (f, 7, rate))
			{	int B7 = fmt_block (f, 7, rate) ; long big7 = 3001 ; (void) B7 ;	/* ten staging rounds: what a round loses adds up to more than a block */
				for (int type = 0 ; type < T_NTYPES ; type++)
					if (vl_case ("C04 fmt=%s ch=7 rate=%d openframes=0 type=%s N=%ld split=0 big", f->name, rate, type_names [type], big7))
					{	vl_root_count (f->name) ; c04_case (f, 7, rate, 0, type, big7, 0) ; }
				}
			for (int oi = 0 ; open_frames [oi] ; oi++)
			{	long ns [3] = { 0, 3, B > 1 ? B + 1 : 257 } ;
				for (int k = 0 ; k < 3 ; k++)
					if (vl_case ("C04 fmt=%s ch=%d rate=%d openframes=%lld type=int N=%ld split=1", f->name, ch, rate, (long long) open_frames [oi], ns [k]))
					{	vl_root_count (f->name) ; c04_case (f, ch, rate, open_frames [oi], T_INT, ns [k], 1) ; }
				}
			}
		}
}

/* =================================================================== C07 */

static void __attribute__ ((noinline)) perturb_stack (int pat)
{	volatile unsigned char junk [96 * 1024] ;
	for (size_t i = 0 ; i < sizeof (junk) ; i += 1) junk [i] = (unsigned char) (pat + i) ;
}

static void perturb_heap (int pat)
{	void *blocks [256] ;
	for (int i = 0 ; i < 256 ; i++)
	{	size_t n = 16 + ((size_t) i * 977 + pat * 131) % 70000 ;
		blocks [i] = malloc (n) ; memset (blocks [i], pat ^ i, n) ;
		}
	for (int i = 0 ; i < 256 ; i++) free (blocks [i]) ;
}

/* write-side command settings ("the open parameters" of the statement): applied right after the open, to the single-call file and to the split runs alike */
enum { C07_SET_NONE = 0, C07_SET_DITHER, C07_SET_CLIP, C07_SET_NONORM, C07_NSET } ;
static const char *c07_set_names [C07_NSET] = { "none", "dither", "clipping", "nonorm+scale" } ;
static int c07_setting ;
static void c07_apply_setting (SNDFILE *sf)
{	SF_DITHER_INFO di ;
	vl_inlib ++ ;
	switch (c07_setting)
	{	case C07_SET_DITHER : memset (&di, 0, sizeof (di)) ; di.type = SFD_WHITE ; di.level = 1.0 ; sf_command (sf, SFC_SET_DITHER_ON_WRITE, &di, sizeof (di)) ; break ;
		case C07_SET_CLIP : sf_command (sf, SFC_SET_CLIPPING, NULL, SF_TRUE) ; break ;
		case C07_SET_NONORM : sf_command (sf, SFC_SET_NORM_FLOAT, NULL, SF_FALSE) ; sf_command (sf, SFC_SET_NORM_DOUBLE, NULL, SF_FALSE) ; sf_command (sf, SFC_SET_SCALE_INT_FLOAT_WRITE, NULL, SF_TRUE) ; break ;
		default : break ;
		}
	vl_inlib -- ;
}

/* segments: nseg lengths in frames; fvar bit k: segment k uses sf_writef_T; upd bit k: SFC_UPDATE_HEADER_NOW after segment k */
static int c07_write (const Fmt *f, int ch, int type, const void *buf, const long *seg, int nseg, unsigned fvar, unsigned upd, long *accepted)
{	SF_INFO info ; SNDFILE *sf ; long off = 0 ; int rc ;
	md_reset (&rt_dev) ;
	rt_info (&info, f, ch, fmt_default_rate (f)) ;
	sf = md_open (&rt_dev, SFM_WRITE, &info) ;
	if (sf == NULL) return -1 ;
	c07_apply_setting (sf) ;
	*accepted = 0 ;
	for (int k = 0 ; k < nseg ; k++)
	{	const char *p = (const char *) buf + off * ch * type_size [type] ;
		sf_count_t w ;
		if (fvar & (1u << k)) w = vl_write (sf, type, 1, p, seg [k]) ;
		else { w = vl_write (sf, type, 0, p, seg [k] * ch) ; if (w > 0) w /= ch ; }
		if (w > 0) *accepted += w ;
		off += seg [k] ;
		if (upd & (1u << k)) INLIB (sf_command (sf, SFC_UPDATE_HEADER_NOW, NULL, 0)) ;
		}
	INLIB (rc = sf_close (sf)) ;
	return rc ;
}

static struct { int fi, ch, type, g, set ; long N ; uint64_t hash ; sf_count_t len ; unsigned char *bytes ; int ok ; void *buf ; } c07_base = { -1 } ;

static void c07_baseline (int fi, const Fmt *f, int ch, int type, int g, long N)
{	long acc, seg [1] = { N } ;
	if (c07_base.fi == fi && c07_base.ch == ch && c07_base.type == type && c07_base.g == g && c07_base.N == N && c07_base.set == c07_setting) return ;
	free (c07_base.buf) ; free (c07_base.bytes) ;
	c07_base.fi = fi ; c07_base.ch = ch ; c07_base.type = type ; c07_base.g = g ; c07_base.N = N ; c07_base.set = c07_setting ;
	c07_base.buf = malloc (N * ch * type_size [type] + 1) ;
	gen_fill (g, type, c07_base.buf, N * ch, f->width ? f->width : 16, f->is_float) ;
	c07_base.ok = (c07_write (f, ch, type, c07_base.buf, seg, 1, 0, 0, &acc) == 0) ;
	c07_base.hash = md_hash (&rt_dev) ;
	c07_base.len = rt_dev.len ;
	c07_base.bytes = malloc (rt_dev.len + 1) ; memcpy (c07_base.bytes, rt_dev.data, rt_dev.len) ;
}

static void c07_case (int fi, const Fmt *f, int ch, int type, int g, long N, const long *seg, int nseg, unsigned fvar, unsigned upd, int perturb, const char *devclass)
{	long acc = 0 ; int rc ;
	c07_baseline (fi, f, ch, type, g, N) ;
	if (! c07_base.ok) { vl_note ("baseline write failed / refused") ; vl_end (0, 3) ; return ; }
	if (perturb) { perturb_heap (perturb * 37) ; perturb_stack (perturb * 91) ; }
	rc = c07_write (f, ch, type, c07_base.buf, seg, nseg, fvar, upd, &acc) ;
	if (rc != 0) vl_violation (rt_sig ("%s|%s|%s|close-or-open-failed", rt_fam (f), rt_chclass (ch), devclass), "rc=%d", rc) ;
	else if (md_hash (&rt_dev) != c07_base.hash || rt_dev.len != c07_base.len)
	{	sf_count_t k = 0, m = rt_dev.len < c07_base.len ? rt_dev.len : c07_base.len ;
		while (k < m && rt_dev.data [k] == c07_base.bytes [k]) k ++ ;
		vl_violation (rt_sig ("%s|%s|%s|bytes-differ", rt_fam (f), rt_chclass (ch), devclass),
			"file differs from the single-call file: lengths %lld vs %lld, first difference at byte %lld (accepted %ld of %ld frames)",
			(long long) rt_dev.len, (long long) c07_base.len, (long long) k, acc, N) ;
		}
	vl_end (1, vl_hash_u64 (md_hash (&rt_dev), VL_H0)) ;
}

static int c07_splits (long *sp, int B, long S, long N)
{	long cand [16] ; int nc = 0, n = 0 ;
	cand [nc++] = 1 ; cand [nc++] = 2 ; cand [nc++] = 3 ;
	if (B > 1) { cand [nc++] = B - 1 ; cand [nc++] = B ; cand [nc++] = B + 1 ; cand [nc++] = 2 * B - 1 ; cand [nc++] = 2 * B ; cand [nc++] = 2 * B + 1 ; }
	cand [nc++] = S - 1 ; cand [nc++] = S ; cand [nc++] = S + 1 ; cand [nc++] = N - 1 ;
	for (int i = 0 ; i < nc ; i++)
	{	int dup = 0 ;
		if (cand [i] <= 0 || cand [i] >= N) continue ;
		for (int j = 0 ; j < n ; j++) if (sp [j] == cand [i]) dup = 1 ;
		if (! dup) sp [n++] = cand [i] ;
		}
	/* sort */
	for (int i = 0 ; i < n ; i++) for (int j = i + 1 ; j < n ; j++) if (sp [j] < sp [i]) { long t = sp [i] ; sp [i] = sp [j] ; sp [j] = t ; }
	return n ;
}

void run_c07 (void)
{	static const int gens [] = { G_POSCODE, G_NOISE1, G_ALTITEM, -1 } ;
	for (int fi = 0 ; fi < fmt_count ; fi++)
	{	const Fmt *f = &fmt_list [fi] ;
		if (f->needs_path) continue ;
		if ((f->format & SF_FORMAT_ENDMASK) == SF_ENDIAN_CPU) continue ;
		if (! vl_opts.thorough && (f->format & SF_FORMAT_ENDMASK) == SF_ENDIAN_LITTLE) continue ;	/* quick: file + be */
		for (int ch = 1 ; ch <= 3 ; ch++)	/* 3: a channel count that does not divide the staging buffers */
		{	int rate = fmt_default_rate (f) ;
			if (! rt_accepts (f, ch, rate)) continue ;
			int B = fmt_block (f, ch, rate) ;
			for (int type = 0 ; type < T_NTYPES ; type++)
			{	long S = 8192 / type_size [type] / ch ;
				long N = B > 1 ? 2 * B + B / 2 + 1 : S + 5, sp [16] ; int nsp ;
				if (B > 1 && N < S + 2 && B < 1000) N = S + 2 + (S + 2) % 2 + 1 ;
				nsp = c07_splits (sp, B, S, N) ;
				for (int gi = 0 ; gens [gi] >= 0 ; gi++)
				{	int g = gens [gi] ; long seg [4] ;
					if (! vl_opts.thorough && gi > 0 && type != T_SHORT && type != T_FLOAT) continue ;
#define C07(devclass, nseg, fvar, upd, perturb, ...) \
	if (vl_case ("C07 fmt=%s ch=%d type=%s gen=%s N=%ld " __VA_ARGS__)) \
	{	vl_root_count (f->name) ; c07_case (fi, f, ch, type, g, N, seg, nseg, fvar, upd, perturb, devclass) ; }
					/* 0 splits */
					seg [0] = N ;
					C07 ("frames-variant", 1, 1, 0, 0, "whole frames-variant", f->name, ch, type_names [type], gen_names [g], N)
					C07 ("rerun-perturbed", 1, 0, 0, 1, "whole perturb=1", f->name, ch, type_names [type], gen_names [g], N)
					C07 ("rerun-perturbed", 1, 0, 0, 2, "whole perturb=2", f->name, ch, type_names [type], gen_names [g], N)
					C07 ("update-header", 1, 0, 1, 0, "whole update-after", f->name, ch, type_names [type], gen_names [g], N)
					for (int a = 0 ; a < nsp ; a++)
					{	seg [0] = sp [a] ; seg [1] = N - sp [a] ;
						C07 ("split", 2, 0, 0, 0, "split=%ld", f->name, ch, type_names [type], gen_names [g], N, sp [a])
						C07 ("split+frames-variant", 2, 1, 0, 0, "split=%ld fvar=1", f->name, ch, type_names [type], gen_names [g], N, sp [a])
						C07 ("split+frames-variant", 2, 2, 0, 0, "split=%ld fvar=2", f->name, ch, type_names [type], gen_names [g], N, sp [a])
						C07 ("split+update-header", 2, 0, 1, 0, "split=%ld upd=1", f->name, ch, type_names [type], gen_names [g], N, sp [a])
						for (int b = a + 1 ; b < nsp ; b++)
						{	seg [0] = sp [a] ; seg [1] = sp [b] - sp [a] ; seg [2] = N - sp [b] ;
							C07 ("split2", 3, 0, 0, 0, "split=%ld,%ld", f->name, ch, type_names [type], gen_names [g], N, sp [a], sp [b])
							if (vl_opts.thorough)
							{	C07 ("split2+update-header", 3, 0, 3, 0, "split=%ld,%ld upd=3", f->name, ch, type_names [type], gen_names [g], N, sp [a], sp [b])
								C07 ("split2+frames-variant", 3, 5, 0, 0, "split=%ld,%ld fvar=5", f->name, ch, type_names [type], gen_names [g], N, sp [a], sp [b])
								for (int c = b + 1 ; c < nsp ; c++)
								{	seg [0] = sp [a] ; seg [1] = sp [b] - sp [a] ; seg [2] = sp [c] - sp [b] ; seg [3] = N - sp [c] ;
									C07 ("split3", 4, 0, 0, 0, "split=%ld,%ld,%ld", f->name, ch, type_names [type], gen_names [g], N, sp [a], sp [b], sp [c])
									}
								seg [0] = sp [a] ; seg [1] = sp [b] - sp [a] ; seg [2] = N - sp [b] ;
								}
							}
						}
					/* the same with a write-side command setting in force (quick: first generator only) */
					if (gi == 0 || vl_opts.thorough)
						for (c07_setting = 1 ; c07_setting < C07_NSET ; c07_setting ++)
						{	char cls [48] ;
							seg [0] = N ;
							snprintf (cls, sizeof (cls), "frames-variant+set:%s", c07_set_names [c07_setting]) ;
							C07 (cls, 1, 1, 0, 0, "whole frames-variant set=%s", f->name, ch, type_names [type], gen_names [g], N, c07_set_names [c07_setting])
							for (int a = 0 ; a < nsp ; a++)
							{	seg [0] = sp [a] ; seg [1] = N - sp [a] ;
								snprintf (cls, sizeof (cls), "split+set:%s", c07_set_names [c07_setting]) ;
								C07 (cls, 2, 0, 0, 0, "split=%ld set=%s", f->name, ch, type_names [type], gen_names [g], N, sp [a], c07_set_names [c07_setting])
								C07 (cls, 2, 1, 0, 0, "split=%ld fvar=1 set=%s", f->name, ch, type_names [type], gen_names [g], N, sp [a], c07_set_names [c07_setting])
								}
							}
					c07_setting = 0 ;
					}
				}
			}
		}
}

/* =================================================================== C10 */

#include <unistd.h>

static char c10_path [512], c10_rsrc [512] ;

static SNDFILE *c10_open (int use_path, int mode, SF_INFO *info)
{	SNDFILE *sf ;
	if (! use_path)
	{	if (mode == SFM_WRITE) md_reset (&rt_dev) ; else md_rewind (&rt_dev) ;
		return md_open (&rt_dev, mode, info) ;
		}
	if (mode == SFM_WRITE) { unlink (c10_path) ; unlink (c10_rsrc) ; }
	INLIB (sf = sf_open (c10_path, mode, info)) ;
	return sf ;
}

static void c10_case (int format, int ch, int rate)
{	SF_INFO info, rinfo ; SNDFILE *sf ; int check, rc, use_path = (format & SF_FORMAT_TYPEMASK) == SF_FORMAT_SD2 ;
	char sigp [96] ; uint64_t out = VL_H0 ;
	const char *chcls = ch < 1 ? "ch<1" : ch == 1 ? "ch1" : ch == 2 ? "ch2" : ch <= 1024 ? "chN" : "ch>1024" ;
	const char *rcls = rate < 0 ? "rate<0" : rate == 0 ? "rate0" : "rate>0" ;
	static const char *endn [4] = { "file", "le", "be", "cpu" } ;

	(void) endn ; (void) chcls ;
	if (rate == 2147483647) rcls = "rate=2^31-1" ;
	snprintf (sigp, sizeof (sigp), "%s/%s|%s", major_name (format), sub_name (format), rcls) ;
	memset (&info, 0, sizeof (info)) ; info.format = format ; info.channels = ch ; info.samplerate = rate ;
	check = sf_format_check (&info) ;
	info.frames = 0 ;
	sf = c10_open (use_path, SFM_WRITE, &info) ;
	out = vl_hash_u64 (check * 2 + (sf != NULL), out) ;
	if ((sf != NULL) != (check != 0))
	{	vl_violation (rate == 0 && check && ! sf ? "any-format|rate0|check=1-open=refused" : rt_sig ("%s|check=%d-open=%s", sigp, check, sf ? "ok" : "refused"), "sf_format_check=%d but write-open %s (%s)", check,
			sf ? "succeeded" : "failed", sf ? "" : sf_strerror (NULL)) ;
		}
	if (sf == NULL)
	{	int e ; INLIB (e = sf_error (NULL)) ;
		if (e == 0) vl_violation (rt_sig ("%s|refused-without-error", sigp), "NULL handle but sf_error(NULL)==0") ;
		if (use_path) { unlink (c10_path) ; unlink (c10_rsrc) ; }
		vl_end (1, out) ; return ;
		}
	if (check)
	{	for (int t = 0 ; t < T_NTYPES ; t++)
			for (int full = 0 ; full < 2 ; full ++)
			{	long frames = 3, items = frames * ch ; sf_count_t w ; int e ;
				void *buf = calloc (items, type_size [t]) ;
				if (full)
					for (long i = 0 ; i < items ; i++)
						switch (t)
						{	case T_SHORT : ((short *) buf) [i] = (i & 1) ? -32768 : 32767 ; break ;
							case T_INT : ((int *) buf) [i] = (i & 1) ? INT32_MIN : INT32_MAX ; break ;
							case T_FLOAT : ((float *) buf) [i] = (i & 1) ? -1.0f : 1.0f ; break ;
							case T_DOUBLE : ((double *) buf) [i] = (i & 1) ? -1.0 : 1.0 ; break ;
							}
				w = vl_write (sf, t, 1, buf, frames) ;
				INLIB (e = sf_error (sf)) ;
				if (w < frames || e != 0)
					vl_violation (rt_sig ("%s|writef_%s-rejected", sigp, type_names [t]), "sf_writef_%s returned %lld of %ld, sf_error=%d (%s)", type_names [t], (long long) w, frames, e, sf_error_number (e)) ;
				free (buf) ;
				}
		}
	INLIB (rc = sf_close (sf)) ;
	if (rc != 0) vl_violation (rt_sig ("%s|close-nonzero", sigp), "sf_close returned %d", rc) ;
	if (check)
	{	memset (&rinfo, 0, sizeof (rinfo)) ;
		if ((format & SF_FORMAT_TYPEMASK) == SF_FORMAT_RAW) { rinfo.format = format ; rinfo.channels = ch ; rinfo.samplerate = rate > 0 ? rate : 1 ; }
		sf = c10_open (use_path, SFM_READ, &rinfo) ;
		if (sf == NULL)
			vl_violation (rt_sig ("%s|reopen-failed", sigp), "re-open for read failed: %s", sf_strerror (NULL)) ;
		else
		{	if ((rinfo.format & (SF_FORMAT_TYPEMASK | SF_FORMAT_SUBMASK)) != (format & (SF_FORMAT_TYPEMASK | SF_FORMAT_SUBMASK)))
				vl_violation (rt_sig ("%s|reopen-format", sigp), "re-opened as 0x%x, written as 0x%x", rinfo.format, format) ;
			INLIB (sf_close (sf)) ;
			}
		}
	if (use_path) { unlink (c10_path) ; unlink (c10_rsrc) ; }
	vl_end (1, out) ;
}

static void c10_lists (void)
{	static const int cmds [3][2] = { { SFC_GET_SIMPLE_FORMAT_COUNT, SFC_GET_SIMPLE_FORMAT }, { SFC_GET_FORMAT_MAJOR_COUNT, SFC_GET_FORMAT_MAJOR }, { SFC_GET_FORMAT_SUBTYPE_COUNT, SFC_GET_FORMAT_SUBTYPE } } ;
	static const char *lname [3] = { "simple", "major", "subtype" } ;
	for (int l = 0 ; l < 3 ; l++)
	{	if (! vl_case ("C10 list=%s", lname [l])) continue ;
		int count = -1 ; uint64_t out = VL_H0 ;
		SF_FORMAT_INFO fi [128] ; char names [128][128] ;
		sf_command (NULL, cmds [l][0], &count, sizeof (int)) ;
		if (count < 1 || count > 120) vl_violation (rt_sig ("list-%s|count", lname [l]), "count=%d", count) ;
		else
		{	for (int k = -1 ; k <= count ; k++)
			{	SF_FORMAT_INFO x ; int r ; memset (&x, 0, sizeof (x)) ; x.format = k ;
				INLIB (r = sf_command (NULL, cmds [l][1], &x, sizeof (x))) ;
				if (k < 0 || k >= count)
				{	if (r == 0) vl_violation (rt_sig ("list-%s|out-of-range-accepted", lname [l]), "index %d of %d returned success", k, count) ;
					continue ;
					}
				if (r != 0) { vl_violation (rt_sig ("list-%s|in-range-refused", lname [l]), "index %d of %d returned %d", k, count, r) ; continue ; }
				fi [k] = x ;
				if (x.name == NULL || x.name [0] == 0) vl_violation (rt_sig ("list-%s|empty-name", lname [l]), "index %d (0x%x) has no name", k, x.format) ;
				snprintf (names [k], 128, "%s", x.name ? x.name : "") ;
				out = vl_hash (names [k], strlen (names [k]), vl_hash_u64 (x.format, out)) ;
				for (int j = 0 ; j < k ; j++)
				{	if (fi [j].format == x.format) vl_violation (rt_sig ("list-%s|duplicate-format", lname [l]), "indices %d and %d both 0x%x", j, k, x.format) ;
					if (strcmp (names [j], names [k]) == 0) vl_violation (rt_sig ("list-%s|duplicate-name", lname [l]), "indices %d and %d both '%s'", j, k, names [k]) ;
					}
				/* SFC_GET_FORMAT_INFO on the returned word */
				{	SF_FORMAT_INFO y ; memset (&y, 0, sizeof (y)) ; y.format = x.format ;
					INLIB (r = sf_command (NULL, SFC_GET_FORMAT_INFO, &y, sizeof (y))) ;
					if (r != 0 || y.name == NULL || y.name [0] == 0)
						vl_violation (rt_sig ("list-%s|format-info", lname [l]), "SFC_GET_FORMAT_INFO(0x%x) returned %d", x.format, r) ;
					else if (l > 0 && strcmp (y.name, names [k]) != 0)
						vl_violation (rt_sig ("list-%s|format-info-name", lname [l]), "SFC_GET_FORMAT_INFO(0x%x) name '%s' != list name '%s'", x.format, y.name, names [k]) ;
					}
				if (l == 0)
				{	SF_INFO si ; int ok = 0 ; memset (&si, 0, sizeof (si)) ; si.format = x.format ; si.samplerate = 44100 ;
					for (int c = 1 ; c <= 2 && ! ok ; c++) { si.channels = c ; ok = sf_format_check (&si) ; }
					if (! ok) vl_violation (rt_sig ("list-simple|format-check"), "simple format %d (0x%x, %s) fails sf_format_check for 1 and 2 channels", k, x.format, names [k]) ;
					}
				if (l == 1)
				{	int nsub = 0, usable = 0 ;
					sf_command (NULL, SFC_GET_FORMAT_SUBTYPE_COUNT, &nsub, sizeof (int)) ;
					for (int sidx = 0 ; sidx < nsub && ! usable ; sidx++)
					{	SF_FORMAT_INFO sx ; SF_INFO si ; sx.format = sidx ;
						sf_command (NULL, SFC_GET_FORMAT_SUBTYPE, &sx, sizeof (sx)) ;
						for (int c = 1 ; c <= 2 && ! usable ; c++)
						{	memset (&si, 0, sizeof (si)) ; si.format = x.format | sx.format ; si.channels = c ; si.samplerate = 44100 ;
							usable = sf_format_check (&si) ;
							}
						}
					if (! usable) vl_violation (rt_sig ("list-major|no-usable-subtype"), "major %d (0x%x, %s) has no subtype passing sf_format_check", k, x.format, names [k]) ;
					}
				}
			}
		vl_end (1, out) ;
		}
}

void run_c10 (void)
{	static const int chans [] = { 0, 1, 2, 3, 8, 9, 127, 128, 255, 256, 257, 1024, 1025 } ;	/* 127 / 128 / 255: where a count stops fitting a signed or an unsigned byte (or, byte-swapped, turns negative) */
	static const int rates [] = { -1, 0, 1, 8000, 44100, 2147483647 } ;
	static const int endians [4] = { SF_ENDIAN_FILE, SF_ENDIAN_LITTLE, SF_ENDIAN_BIG, SF_ENDIAN_CPU } ;
	static const char *endn [4] = { "file", "le", "be", "cpu" } ;
	int nmajor = 0, nsub = 0 ;
	const char *tmp = getenv ("TMPDIR") ;
	snprintf (c10_path, sizeof (c10_path), "%s/c10_%d.sd2", tmp ? tmp : ".", (int) getpid ()) ;
	snprintf (c10_rsrc, sizeof (c10_rsrc), "%s/._c10_%d.sd2", tmp ? tmp : ".", (int) getpid ()) ;

	c10_lists () ;
	sf_command (NULL, SFC_GET_FORMAT_MAJOR_COUNT, &nmajor, sizeof (int)) ;
	sf_command (NULL, SFC_GET_FORMAT_SUBTYPE_COUNT, &nsub, sizeof (int)) ;
	for (int m = 0 ; m <= nmajor + 1 ; m++)
	{	SF_FORMAT_INFO mi ; mi.format = m ;
		if (m < nmajor) sf_command (NULL, SFC_GET_FORMAT_MAJOR, &mi, sizeof (mi)) ;
		else mi.format = (m == nmajor) ? 0x0FF0000 : 0 ;	/* unknown major, zero major */
		for (int sidx = 0 ; sidx <= nsub + 1 ; sidx++)
		{	SF_FORMAT_INFO si ; si.format = sidx ;
			if (sidx < nsub) sf_command (NULL, SFC_GET_FORMAT_SUBTYPE, &si, sizeof (si)) ;
			else si.format = (sidx == nsub) ? 0x7FFF : 0 ;	/* unknown subtype, zero subtype */
			for (int e = 0 ; e < 4 ; e++)
				for (unsigned c = 0 ; c < sizeof (chans) / sizeof (chans [0]) ; c++)
					for (unsigned r = 0 ; r < sizeof (rates) / sizeof (rates [0]) ; r++)
					{	int format = mi.format | si.format | endians [e] ;
						if (vl_case ("C10 format=0x%08x (%s/%s/%s) ch=%d rate=%d", format, major_name (format), sub_name (format), endn [e], chans [c], rates [r]))
						{	vl_root_count (major_name (format)) ;
							c10_case (format, chans [c], rates [r]) ;
							}
						}
			}
		}
	/* stray bits in the format word */
	{	static const int stray [] = { 0x40000000, (int) 0x80000000, 0x08000000, 0x00008000 } ;
		for (unsigned k = 0 ; k < 4 ; k++)
		{	int format = SF_FORMAT_WAV | SF_FORMAT_PCM_16 | stray [k] ;
			if (vl_case ("C10 format=0x%08x (stray bits) ch=%d rate=%d", format, 2, 44100))
			{	vl_root_count ("stray") ; c10_case (format, 2, 44100) ; }
			}
		}
}

/* =================================================================== dispatch */

void run_c04 (void) ;
void run_c07 (void) ;
void run_c10 (void) ;

void harness_run (void)
{	fmt_build () ;
	md_init (&rt_dev) ;
	if (! strcmp (vl_opts.prop, "C01")) run_c01 () ;
	else if (! strcmp (vl_opts.prop, "C04")) run_c04 () ;
	else if (! strcmp (vl_opts.prop, "C07")) run_c07 () ;
	else if (! strcmp (vl_opts.prop, "C10")) run_c10 () ;
	else { fprintf (stderr, "h_rt: unknown property %s\n", vl_opts.prop) ; exit (3) ; }
}

