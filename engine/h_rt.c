/* h_rt.c - write / close / re-open / read family: C01 (lossless round trip), C04 (closed file describes
** what was written), C07 (bytes independent of write partition), C10 (sf_format_check vs reality).
*/
#include "vlib.h"
#include "rt_common.h"

const char *harness_name = "h_rt" ;

/* =================================================================== C01 */

static void c01_case (const Fmt *f, int ch, int type, long N, int g, const int32_t *seq, int seqlen)
{	SF_INFO info ; SNDFILE *sf ; long items = N * ch ; int rc ;
	void *wbuf, *rbuf ; sf_count_t w, r ; int rate = fmt_default_rate (f) ;
	int B = fmt_block (f, ch, rate) ;
	char sigp [128] ; const char *ncls ;
	uint64_t out = VL_H0 ;

	ncls = rt_nclass (N, B) ;
	snprintf (sigp, sizeof (sigp), "%s|%s|%s", rt_fam (f), ch == 1 ? "ch1" : "chN", ncls) ;

	md_reset (&rt_dev) ;
	rt_info (&info, f, ch, rate) ;
	sf = md_open (&rt_dev, SFM_WRITE, &info) ;
	if (sf == NULL)
	{	vl_note ("write-open refused: %s", sf_strerror (NULL)) ;
		vl_end (0, 1) ; return ;
		}
	wbuf = malloc (items * type_size [type] + 1) ;
	rbuf = malloc (items * type_size [type] + 1) ;
	if (seq)
	{	for (long i = 0 ; i < items ; i++) rt_put_i32 (wbuf, type, i, seq [i % seqlen], f) ;
		}
	else
		gen_fill (g, type, wbuf, items, f->width, f->is_float) ;

	w = vl_write (sf, type, 0, wbuf, items) ;
	if (w != items)
	{	int err ; INLIB (err = sf_error (sf)) ;
		vl_violation (rt_sig ("%s|write-short", sigp), "wrote %ld of %ld items, sf_error=%d (%s)", (long) w, items, err, sf_error_number (err)) ;
		}
	INLIB (rc = sf_close (sf)) ;
	if (rc != 0) vl_violation (rt_sig ("%s|close-nonzero", sigp), "sf_close returned %d", rc) ;
	out = vl_hash_u64 (md_hash (&rt_dev), out) ;

	if (w == items)
	{	SF_INFO rinfo ;
		md_rewind (&rt_dev) ;
		rt_info_read (&rinfo, f, ch, rate) ;
		sf = md_open (&rt_dev, SFM_READ, &rinfo) ;
		if (sf == NULL)
			vl_violation (rt_sig ("%s|reopen-failed", sigp), "re-open failed: %s", sf_strerror (NULL)) ;
		else
		{	if (rinfo.frames < N)
				vl_violation (rt_sig ("%s|frames-lt-N", sigp), "frames=%ld after writing N=%ld", (long) rinfo.frames, N) ;
			if (rinfo.channels != ch)
				vl_violation (rt_sig ("%s|channels", sigp), "channels=%d expected %d", rinfo.channels, ch) ;
			else
			{	memset (rbuf, 0x5A, items * type_size [type]) ;
				r = vl_read (sf, type, 0, rbuf, items) ;
				if (r != items)
					vl_violation (rt_sig ("%s|read-short", sigp), "read %ld of %ld items (frames=%ld)", (long) r, items, (long) rinfo.frames) ;
				else if (memcmp (wbuf, rbuf, items * type_size [type]) != 0)
				{	long k = rt_first_diff (wbuf, rbuf, items, type) ;
					vl_violation (rt_sig ("%s|mismatch%s", sigp, g >= G_NOISE1 && ! seq ? "-noise" : ""), "first difference at item %ld of %ld: wrote %s read %s",
						k, items, rt_fmt_item (wbuf, type, k, 0), rt_fmt_item (rbuf, type, k, 1)) ;
					}
				out = vl_hash (rbuf, items * type_size [type], out) ;
				}
			INLIB (sf_close (sf)) ;
			}
		}
	free (wbuf) ; free (rbuf) ;
	vl_end (N > 0 && (seq || g != G_ZERO), out) ;
}

static void run_c01 (void)
{	static const int ch_quick [] = { 1, 2, 3, 0 }, ch_thorough [] = { 1, 2, 3, 5, 8, 0 } ;
	const int *chs = vl_opts.thorough ? ch_thorough : ch_quick ;
	static const int32_t alpha [5] = { INT32_MIN, -1, 0, 1, INT32_MAX } ;

	for (int fi = 0 ; fi < fmt_count ; fi++)
	{	const Fmt *f = &fmt_list [fi] ;
		if (! f->lossless || f->needs_path) continue ;
		if (! vl_opts.thorough && (f->format & SF_FORMAT_ENDMASK) == SF_ENDIAN_CPU) continue ;
		for (const int *pc = chs ; *pc ; pc++)
		{	int ch = *pc, rate = fmt_default_rate (f) ;
			if (! rt_accepts (f, ch, rate)) continue ;
			int B = fmt_block (f, ch, rate) ;
			for (int type = 0 ; type < T_NTYPES ; type++)
			{	long lens [40] ; int nl ;
				if (! (f->lossless & (1 << type))) continue ;
				nl = rt_len_alphabet (lens, B, 8192 / type_size [type], ch, vl_opts.thorough) ;
				for (int li = 0 ; li < nl ; li++)
					for (int g = 0 ; g < G_NGEN ; g++)
					{	if (! vl_opts.thorough && (g == G_NOISE3 || g == G_NOISE4) && ! f->is_float) continue ;
						if (lens [li] == 0 && g != G_ZERO) continue ;
						if (lens [li] > 0 && lens [li] * ch > 3 * 8192 && g != G_NOISE1 && g != G_POSCODE && g != G_ALTITEM) continue ;
						if (vl_case ("C01 fmt=%s ch=%d type=%s N=%ld gen=%s", f->name, ch, type_names [type], lens [li], gen_names [g]))
						{	vl_root_count (f->name) ;
							c01_case (f, ch, type, lens [li], g, NULL, 0) ;
							}
						}
				/* small-scope exhaustive: all sequences over {min,-1,0,1,max} with N*ch <= 4 items */
				if (ch <= 2)
				{	for (int len = ch ; len <= 4 ; len += ch)
					{	int total = 1 ; for (int k = 0 ; k < len ; k++) total *= 5 ;
						for (int code = 0 ; code < total ; code ++)
						{	if (vl_case ("C01 fmt=%s ch=%d type=%s seq=%d/%d", f->name, ch, type_names [type], code, len))
							{	int32_t seq [4] ; int c = code ;
								for (int k = 0 ; k < len ; k++) { seq [k] = alpha [c % 5] ; c /= 5 ; }
								vl_root_count (f->name) ;
								c01_case (f, ch, type, len / ch, 0, seq, len) ;
								}
							}
						}
					}
				}
			}
		}
}

/* =================================================================== dispatch */

void run_c04 (void) ;
void run_c07 (void) ;
void run_c10 (void) ;

void harness_run (void)
{	fmt_build () ;
	md_init (&rt_dev) ;
	if (! strcmp (vl_opts.prop, "C01")) run_c01 () ;
	else if (! strcmp (vl_opts.prop, "C04")) run_c04 () ;
	else if (! strcmp (vl_opts.prop, "C07")) run_c07 () ;
	else if (! strcmp (vl_opts.prop, "C10")) run_c10 () ;
	else { fprintf (stderr, "h_rt: unknown property %s\n", vl_opts.prop) ; exit (3) ; }
}

void run_c04 (void) { }
void run_c07 (void) { }
void run_c10 (void) { }
