/* h_c20.c - C20: built-in codec kernels vs. their published definitions (linked into h_conv). */
#include "vlib.h"
#include "rt_common.h"
#include "ref.h"

extern MemDev dev ;

static const char *sig (const char *fmt, ...)
{	static char b [160] ; va_list ap ;
	va_start (ap, fmt) ; vsnprintf (b, sizeof (b), fmt, ap) ; va_end (ap) ;
	return b ;
}

/* ------------------------------------------------------------------ G.711 through real containers */

static void g711_container (const Fmt *f, int law)
{	SF_INFO info ; SNDFILE *sf ; static short in [65536] ; long bad = 0 ; uint64_t oh = VL_H0 ;
	for (int i = 0 ; i < 65536 ; i++) in [i] = (short) (i - 32768) ;
	md_reset (&dev) ; rt_info (&info, f, 1, 8000) ;
	sf = md_open (&dev, SFM_WRITE, &info) ;
	if (! sf) { vl_note ("open refused") ; vl_end (0, 1) ; return ; }
	if (vl_write (sf, T_SHORT, 0, in, 65536) != 65536) vl_violation (sig ("g711|%s|short-write", rt_fam (f)), "short write") ;
	INLIB (sf_close (sf)) ;
	/* locate the 65536 data bytes: they are the only run that matches the reference encoding; search from the end */
	long data_off = -1 ;
	{	long off = -1 ;
		for (long cand = dev.len - 65536 ; cand >= 0 && cand >= dev.len - 65536 - 16 ; cand --)
		{	int ok = 1 ;
			for (int i = 0 ; i < 65536 && ok ; i += 257)
				ok = dev.data [cand + i] == (law ? ref_alaw_encode (in [i]) : ref_ulaw_encode (in [i])) ;
			if (ok) { off = cand ; break ; }
			}
		data_off = off ;
		if (off < 0) vl_violation (sig ("g711|%s|encode", rt_fam (f)), "data bytes do not match G.711 encoding of the 65536 shorts") ;
		else
			for (int i = 0 ; i < 65536 ; i++)
			{	unsigned e = law ? ref_alaw_encode (in [i]) : ref_ulaw_encode (in [i]) ;
				if (dev.data [off + i] != e && bad ++ == 0)
					vl_violation (sig ("g711|%s|encode", rt_fam (f)), "short %d encoded as 0x%02x, G.711 gives 0x%02x", in [i], dev.data [off + i], e) ;
				}
		}
	/* the other sample-type entries of the encoder: int carries the short in its upper half (all 65536 values); float and double
	** (normalisation off, value = the short itself) round to the codec's 14-bit (mu-law) / 12-bit (A-law) input grid, so they are
	** compared on that grid, where no rounding rule is involved */
	{	unsigned char *first = malloc (dev.len + 1) ; sf_count_t first_len = dev.len ; memcpy (first, dev.data, dev.len) ;
		for (int type = T_INT ; type < T_NTYPES ; type++)
		{	void *buf = malloc (65536 * 8) ; long ebad = 0 ; int grid = type == T_INT ? 1 : law ? 16 : 4 ;
			for (int i = 0 ; i < 65536 ; i++)
				switch (type) { case T_INT : ((int *) buf) [i] = (int) ((unsigned) in [i] << 16) ; break ; case T_FLOAT : ((float *) buf) [i] = in [i] ; break ; default : ((double *) buf) [i] = in [i] ; break ; }
			md_reset (&dev) ; rt_info (&info, f, 1, 8000) ; sf = md_open (&dev, SFM_WRITE, &info) ;
			if (sf)
			{	INLIB (sf_command (sf, SFC_SET_NORM_FLOAT, NULL, SF_FALSE)) ; INLIB (sf_command (sf, SFC_SET_NORM_DOUBLE, NULL, SF_FALSE)) ;
				vl_write (sf, type, 0, buf, 65536) ; INLIB (sf_close (sf)) ;
				if (dev.len != first_len) vl_violation (sig ("g711|%s|encode-%s", rt_fam (f), type_names [type]), "file length %lld differs from the short-entry file's %lld", (long long) dev.len, (long long) first_len) ;
				else
					for (int i = 0 ; i < 65536 ; i++)
					{	unsigned e = law ? ref_alaw_encode (in [i]) : ref_ulaw_encode (in [i]) ; sf_count_t at = data_off + i ;	/* same container, same layout as the short-entry file */
						if (in [i] % grid || data_off < 0) continue ;
						if (at >= 0 && at < dev.len && dev.data [at] != e && ebad ++ == 0)
							vl_violation (sig ("g711|%s|encode-%s", rt_fam (f), type_names [type]), "%s entry: value %d encoded as 0x%02x, G.711 gives 0x%02x", type_names [type], in [i], dev.data [at], e) ;
						}
				oh = vl_hash (dev.data, dev.len, oh) ;
				}
			free (buf) ;
			}
		md_set (&dev, first, first_len) ; free (first) ;
		}
	for (int type = 0 ; type < T_NTYPES ; type++)
		for (int norm = (type >= T_FLOAT ? 0 : 1) ; norm < 2 ; norm++)
		{	SF_INFO ri ; void *out = malloc (65536 * 8) ; md_rewind (&dev) ; rt_info_read (&ri, f, 1, 8000) ;
			sf = md_open (&dev, SFM_READ, &ri) ;
			if (! sf) { vl_violation (sig ("g711|%s|reopen", rt_fam (f)), "%s", sf_strerror (NULL)) ; free (out) ; continue ; }
			INLIB (sf_command (sf, SFC_SET_NORM_FLOAT, NULL, norm)) ; INLIB (sf_command (sf, SFC_SET_NORM_DOUBLE, NULL, norm)) ;
			if (vl_read (sf, type, 0, out, 65536) != 65536) vl_violation (sig ("g711|%s|short-read", rt_fam (f)), "short read") ;
			else
				for (int i = 0 ; i < 65536 ; i++)
				{	int v = law ? ref_alaw_decode (ref_alaw_encode (in [i])) : ref_ulaw_decode (ref_ulaw_encode (in [i])), ok = 1 ;
					switch (type)
					{	case T_SHORT : ok = ((short *) out) [i] == v ; break ;
						case T_INT : ok = ((int *) out) [i] == v * 65536 ; break ;
						case T_FLOAT : ok = ((float *) out) [i] == ref_int_to_float (16, v, norm) ; break ;
						case T_DOUBLE : ok = ((double *) out) [i] == ref_int_to_double (16, v, norm) ; break ;
						}
					if (! ok && bad ++ == 0)
						vl_violation (sig ("g711|%s|decode-%s", rt_fam (f), type_names [type]), "code for short %d decoded (norm=%d) as %s, G.711 value %d", in [i], norm, rt_fmt_item (out, type, i, 0), v) ;
					}
			oh = vl_hash (out, 65536 * type_size [type], oh) ;
			free (out) ; INLIB (sf_close (sf)) ;
			}
	vl_count_extra (0, 65536 * 7) ;
	vl_end (1, oh) ;
}

static void g711_corollaries (int law)
{	/* encode after decode is the identity on codes (mu-law: 0x7F, negative zero, maps to 0xFF); decode after encode never moves
	** a value across a decision level: checked against the reference, which is the Recommendation's table */
	long bad = 0 ;
	for (unsigned c = 0 ; c < 256 ; c++)
	{	unsigned back = law ? ref_alaw_encode (ref_alaw_decode (c)) : ref_ulaw_encode (ref_ulaw_decode (c)) ;
		unsigned want = (! law && c == 0x7F) ? 0xFF : c ;
		if (back != want && bad ++ == 0) vl_violation (sig ("g711|ref-corollary|%s", law ? "alaw" : "ulaw"), "reference encode(decode(0x%02x)) = 0x%02x", c, back) ;
		}
	vl_end (1, law) ;
}

/* ------------------------------------------------------------------ portable IEEE serialisers */

static void ieee_chunk (int is_double, int big, int dir, uint32_t chunk, uint32_t nchunks_log2)
{	/* chunk selects the top bits of the pattern space; 2^20 patterns per chunk */
	const long n = 1 << 20 ; SF_INFO info ; SNDFILE *sf ; long bad = 0 ; uint64_t oh = VL_H0 ;
	int bw = is_double ? 8 : 4 ;
	unsigned char *native = malloc (n * bw), *buf = malloc (n * bw) ;
	for (long i = 0 ; i < n ; i++)
	{	if (! is_double)
		{	/* pattern = chunk bits | i bits spread: top (nchunks_log2) bits from chunk, rest from i with low bits filled by lattice */
			uint32_t u ;
			if (nchunks_log2 == 12) u = (chunk << 20) | (uint32_t) i ;		/* thorough: all 2^32 */
			else
			{	/* quick: 2^24 patterns: sign+exponent (9 bits) x 2^15 mantissas (top 13 mantissa bits x 4 low fillers) */
				uint32_t idx = (chunk << 20) | (uint32_t) i ;			/* 24-bit index */
				uint32_t se = idx >> 15, m = idx & 0x7FFF ;
				static const uint32_t fill [4] = { 0, 0x3FF, 1, 0x2AA } ;
				u = (se << 23) | ((m >> 2) << 10) | fill [m & 3] ;
				}
			if (((u >> 23) & 0xFF) == 0xFF || ((u >> 23) & 0xFF) == 0) u = 0 ;	/* inf / nan / subnormal / -0 -> +0 (the claim is about finite normal values) */
			float fv ; memcpy (&fv, &u, 4) ; memcpy (native + i * 4, &fv, 4) ;
			}
		else
		{	uint64_t idx = ((uint64_t) chunk << 20) | (uint64_t) i, u ;		/* 24 (quick) or 28-bit index */
			uint64_t se = idx >> (nchunks_log2 + 20 - 12), m = idx & ((1u << (nchunks_log2 + 20 - 12)) - 1) ;
			/* 12 bits sign+exponent, remaining index bits = top mantissa bits, low mantissa filled from a 4-pattern lattice */
			static const uint64_t fill [4] = { 0, 0xFFFFFFFFFFull, 1, 0xAAAAAAAAAAull } ;
			int mbits = (int) nchunks_log2 + 20 - 12 - 2 ;
			u = (se << 52) | ((m >> 2) << (52 - mbits)) | (fill [m & 3] & (((uint64_t) 1 << (52 - mbits)) - 1)) ;
			if (((u >> 52) & 0x7FF) == 0x7FF || ((u >> 52) & 0x7FF) == 0) u = 0 ;
			memcpy (native + i * 8, &u, 8) ;
			}
		}
	memset (&info, 0, sizeof (info)) ;
	info.format = SF_FORMAT_RAW | (is_double ? SF_FORMAT_DOUBLE : SF_FORMAT_FLOAT) | (big ? SF_ENDIAN_BIG : SF_ENDIAN_LITTLE) ; info.channels = 1 ; info.samplerate = 8000 ;
	if (dir == 0)
	{	/* write with the replacement serialiser, compare the file bytes with the native representation */
		md_reset (&dev) ; sf = md_open (&dev, SFM_WRITE, &info) ;
		INLIB (sf_command (sf, SFC_TEST_IEEE_FLOAT_REPLACE, NULL, SF_TRUE)) ;
		if (vl_write (sf, is_double ? T_DOUBLE : T_FLOAT, 0, native, n) != n) vl_violation (sig ("ieee|%s|short-write", is_double ? "double" : "float"), "short write") ;
		INLIB (sf_close (sf)) ;
		if (dev.len != n * bw) vl_violation (sig ("ieee|%s|write-length", is_double ? "double" : "float"), "length %lld", (long long) dev.len) ;
		else
			for (long i = 0 ; i < n ; i++)
			{	int ok = 1 ;
				for (int k = 0 ; k < bw && ok ; k++) ok = dev.data [i * bw + k] == native [i * bw + (big ? bw - 1 - k : k)] ;
				if (! ok && bad ++ == 0)
				{	uint64_t u = 0 ; memcpy (&u, native + i * bw, bw) ;
					vl_violation (sig ("ieee|%s|write|%s", is_double ? "double" : "float", "bits"), "value with bits 0x%llx serialised differently from the native representation (%s endian)", (unsigned long long) u, big ? "big" : "little") ;
					}
				}
		oh = md_hash (&dev) ;
		}
	else
	{	for (long i = 0 ; i < n ; i++) for (int k = 0 ; k < bw ; k++) buf [i * bw + k] = native [i * bw + (big ? bw - 1 - k : k)] ;
		md_set (&dev, buf, n * bw) ; sf = md_open (&dev, SFM_READ, &info) ;
		INLIB (sf_command (sf, SFC_TEST_IEEE_FLOAT_REPLACE, NULL, SF_TRUE)) ;
		if (vl_read (sf, is_double ? T_DOUBLE : T_FLOAT, 0, buf, n) != n) vl_violation (sig ("ieee|%s|short-read", is_double ? "double" : "float"), "short read") ;
		else
			for (long i = 0 ; i < n ; i++)
				if (memcmp (buf + i * bw, native + i * bw, bw) != 0 && bad ++ == 0)
				{	uint64_t u = 0, g = 0 ; memcpy (&u, native + i * bw, bw) ; memcpy (&g, buf + i * bw, bw) ;
					vl_violation (sig ("ieee|%s|read|%s", is_double ? "double" : "float", "bits"), "stored bits 0x%llx deserialised as 0x%llx (%s endian)", (unsigned long long) u, (unsigned long long) g, big ? "big" : "little") ;
					}
		INLIB (sf_close (sf)) ;
		oh = vl_hash (buf, n * bw, VL_H0) ;
		}
	vl_count_extra (0, n) ;
	free (native) ; free (buf) ;
	vl_end (1, oh) ;
}

/* ------------------------------------------------------------------ byte-order helpers: LE file vs BE file are byte reversals */

static void endswap_case (int sub, int bw, const char *name)
{	long n = 65536 * 2 ; unsigned char *le, *be = NULL ; long len [2] ; long bad = 0 ;
	void *in = malloc (n * 8) ; int type = bw == 2 ? T_SHORT : bw == 8 ? T_DOUBLE : T_INT ;
	for (long i = 0 ; i < n ; i++)
	{	uint64_t u = (uint64_t) i * 0x9E3779B97F4A7C15ull ; if (i < 65536) u = (uint64_t) i | ((uint64_t) i << 16) | ((uint64_t) (i ^ 0xFFFF) << 32) | ((uint64_t) i << 48) ;
		if (type == T_SHORT) ((short *) in) [i] = (short) (i & 0xFFFF) ;
		else if (type == T_INT) ((int *) in) [i] = (int) u ;
		else { if (((u >> 52) & 0x7FF) == 0x7FF) u &= ~((uint64_t) 1 << 62) ; memcpy ((double *) in + i, &u, 8) ; }
		}
	le = NULL ;
	for (int big = 0 ; big < 2 ; big++)
	{	SF_INFO info ; SNDFILE *sf ; memset (&info, 0, sizeof (info)) ;
		info.format = SF_FORMAT_RAW | sub | (big ? SF_ENDIAN_BIG : SF_ENDIAN_LITTLE) ; info.channels = 1 ; info.samplerate = 8000 ;
		md_reset (&dev) ; sf = md_open (&dev, SFM_WRITE, &info) ;
		vl_write (sf, type, 0, in, n) ; INLIB (sf_close (sf)) ;
		len [big] = dev.len ;
		if (big) { be = malloc (dev.len + 1) ; memcpy (be, dev.data, dev.len) ; } else { le = malloc (dev.len + 1) ; memcpy (le, dev.data, dev.len) ; }
		}
	if (len [0] != n * bw || len [1] != n * bw) vl_violation (sig ("endswap|%s|length", name), "lengths %ld %ld", len [0], len [1]) ;
	else
		for (long i = 0 ; i < n ; i++)
			for (int k = 0 ; k < bw ; k++)
				if (le [i * bw + k] != be [i * bw + bw - 1 - k] && bad ++ == 0)
					vl_violation (sig ("endswap|%s|value", name), "item %ld: little- and big-endian files are not byte reversals of each other", i) ;
	vl_count_extra (0, n) ;
	free (in) ; free (le) ; free (be) ;
	vl_end (1, bw) ;
}

/* ------------------------------------------------------------------ ADPCM decoders vs reference */

static void put16 (unsigned char *p, int v) { p [0] = v & 0xFF ; p [1] = (v >> 8) & 0xFF ; }
static void put32 (unsigned char *p, uint32_t v) { p [0] = v ; p [1] = v >> 8 ; p [2] = v >> 16 ; p [3] = v >> 24 ; }
static void put32be (unsigned char *p, uint32_t v) { p [3] = v ; p [2] = v >> 8 ; p [1] = v >> 16 ; p [0] = v >> 24 ; }
static void put16be (unsigned char *p, int v) { p [1] = v & 0xFF ; p [0] = (v >> 8) & 0xFF ; }

static const short ms_coeffs [7][2] = { { 256, 0 }, { 512, -256 }, { 0, 0 }, { 192, 64 }, { 240, 0 }, { 460, -208 }, { 392, -232 } } ;

/* nibble stream families: returns byte k of stream s */
#define NSTREAMS 27
static unsigned char stream_byte (int s, long k, uint32_t *lcg)
{	if (s < 16) return (unsigned char) (s | (s << 4)) ;		/* the 16 constant nibbles (incl. all-0, all-7, all-8, all-F) */
	switch (s)
	{	case 16 : return (k & 1) ? 0x7F : 0xF7 ;
		case 17 : return (k & 1) ? 0x80 : 0x08 ;
		case 18 : return (unsigned char) ((k & 0x0F) | (((k + 1) & 0x0F) << 4)) ;	/* ascending */
		case 19 : return (k % 3) ? 0x77 : 0xFF ;
		case 20 : return 0x4C ;
		case 21 : return 0xC4 ;
		case 22 : return (k & 2) ? 0x37 : 0xB8 ;
		default : *lcg = *lcg * 1664525u + 1013904223u + (uint32_t) s ; return (unsigned char) (*lcg >> 24) ;
		}
}

static long build_wav (unsigned char *file, int fmt_tag, int ch, int rate, int blockalign, int spb, int nblocks, const unsigned char *blocks)
{	unsigned char *p = file ; int extra = fmt_tag == 2 ? 32 : 2, fmt_size = 18 + extra ; long datalen = (long) nblocks * blockalign ;
	memcpy (p, "RIFF", 4) ; put32 (p + 4, (uint32_t) (4 + 8 + fmt_size + 12 + 8 + datalen)) ; memcpy (p + 8, "WAVE", 4) ; p += 12 ;
	memcpy (p, "fmt ", 4) ; put32 (p + 4, fmt_size) ; p += 8 ;
	put16 (p, fmt_tag) ; put16 (p + 2, ch) ; put32 (p + 4, rate) ; put32 (p + 8, (uint32_t) ((long) rate * blockalign / spb)) ; put16 (p + 12, blockalign) ; put16 (p + 14, 4) ; put16 (p + 16, extra) ;
	put16 (p + 18, spb) ;
	if (fmt_tag == 2)
	{	put16 (p + 20, 7) ;
		for (int k = 0 ; k < 7 ; k++) { put16 (p + 22 + 4 * k, ms_coeffs [k][0]) ; put16 (p + 24 + 4 * k, ms_coeffs [k][1]) ; }
		}
	p += fmt_size ;
	memcpy (p, "fact", 4) ; put32 (p + 4, 4) ; put32 (p + 8, (uint32_t) ((long) nblocks * spb)) ; p += 12 ;
	memcpy (p, "data", 4) ; put32 (p + 4, (uint32_t) datalen) ; p += 8 ;
	memcpy (p, blocks, datalen) ; p += datalen ;
	return p - file ;
}

static long build_aifc_ima (unsigned char *file, int ch, int rate, int nblocks, const unsigned char *blocks)
{	unsigned char *p = file ; long datalen = (long) nblocks * 34 * ch, frames = (long) nblocks * 64 ;
	static const char cname [] = "\x0cIMA 4:1 ACE\0" ;	/* pascal string, even padded: 1 + 12 + 1 = 14 bytes */
	long comm = 2 + 4 + 2 + 10 + 4 + 14 ;
	memcpy (p, "FORM", 4) ; put32be (p + 4, (uint32_t) (4 + 12 + 8 + comm + 8 + 8 + datalen)) ; memcpy (p + 8, "AIFC", 4) ; p += 12 ;
	memcpy (p, "FVER", 4) ; put32be (p + 4, 4) ; put32be (p + 8, 0xA2805140u) ; p += 12 ;
	memcpy (p, "COMM", 4) ; put32be (p + 4, (uint32_t) comm) ; p += 8 ;
	put16be (p, ch) ; put32be (p + 2, (uint32_t) frames) ; put16be (p + 6, 16) ;
	/* 80-bit extended sample rate: exponent 16383 + log2, mantissa normalised */
	{	int e = 0 ; uint32_t m = (uint32_t) rate ; while (! (m & 0x80000000u)) { m <<= 1 ; e ++ ; }
		put16be (p + 8, 16383 + 31 - e) ; put32be (p + 10, m) ; put32be (p + 14, 0) ;
		}
	memcpy (p + 18, "ima4", 4) ; memcpy (p + 22, cname, 14) ; p += comm ;
	memcpy (p, "SSND", 4) ; put32be (p + 4, (uint32_t) (8 + datalen)) ; put32be (p + 8, 0) ; put32be (p + 12, 0) ; p += 16 ;
	memcpy (p, blocks, datalen) ; p += datalen ;
	return p - file ;
}

/* codec: 0 WAV IMA, 1 WAV MS, 2 AIFC ima4 */
static void adpcm_case (int codec, int ch, int blockalign, int hdr, int stream)
{	enum { NB = 3 } ; static unsigned char blocks [NB * 2048 * 2], file [NB * 4096 + 512] ; static short expect [NB * 4200 * 2], got [NB * 4200 * 2] ;
	int spb, bsz, in_domain = 1 ; long flen, frames, valid_frames = 0 ; uint32_t lcg = 12345u + (uint32_t) hdr * 7 + (uint32_t) stream ;
	SF_INFO ri ; SNDFILE *sf ; long bad = 0 ; static const char *cn [3] = { "wav-ima", "wav-ms", "aifc-ima4" } ;
	static const int preds [5] = { -32768, -1, 0, 1, 32767 }, idxs [6] = { 0, 1, 87, 88, 89, 127 } ;
	static const int deltas [8] = { 16, 100, 0x7FFF, -32768, 0, 1, 15, 17 }, samps [4][2]	/* idelta: also the values below the adaptation floor of 16 */ = { { 0, 0 }, { 32767, -32768 }, { -32768, 32767 }, { 32767, 32767 } } ;

	if (codec == 0) { spb = (blockalign - 4 * ch) * 2 / ch + 1 ; bsz = blockalign ; }
	else if (codec == 1) { spb = 2 + 2 * (blockalign - 7 * ch) / ch ; bsz = blockalign ; }
	else { spb = 64 ; bsz = 34 * ch ; }
	for (int b = 0 ; b < NB ; b++)
	{	unsigned char *blk = blocks + b * bsz ; long k0 ;
		for (long k = 0 ; k < bsz ; k++) blk [k] = stream_byte ((stream + b * 5) % NSTREAMS, k, &lcg) ;
		/* header fields */
		if (codec == 0)
			for (int c = 0 ; c < ch ; c++)
			{	int hp = preds [(hdr + c + b) % 5], hi = idxs [(hdr / 5 + b) % 6] ;
				put16 (blk + 4 * c, hp) ; blk [4 * c + 2] = hi ; blk [4 * c + 3] = 0 ;
				if (hi > 88) in_domain = 0 ;
				}
		else if (codec == 1)
		{	int bp = hdr % 8, d = deltas [(hdr / 8) % 8], sp = (hdr / 64 + b) % 4 ;	/* bpred 7 is outside the domain */
			if (bp >= 7 || d < 0) in_domain = 0 ;
			k0 = 0 ;
			for (int c = 0 ; c < ch ; c++) blk [k0++] = bp ;
			for (int c = 0 ; c < ch ; c++) { put16 (blk + k0, d) ; k0 += 2 ; }
			for (int c = 0 ; c < ch ; c++) { put16 (blk + k0, samps [sp][0]) ; k0 += 2 ; }
			for (int c = 0 ; c < ch ; c++) { put16 (blk + k0, samps [sp][1]) ; k0 += 2 ; }
			}
		else
			for (int c = 0 ; c < ch ; c++)
			{	int hp = preds [(hdr + c + b) % 5], hi = idxs [(hdr / 5 + b) % 6] ;
				blk [34 * c] = (hp >> 8) & 0xFF ; blk [34 * c + 1] = (hp & 0x80) | (hi & 0x7F) ;
				if (hi > 88) in_domain = 0 ;
				}
		}
	flen = codec == 2 ? build_aifc_ima (file, ch, 8000, NB, blocks) : build_wav (file, codec == 0 ? 0x11 : 2, ch, 8000, blockalign, spb, NB, blocks) ;
	md_set (&dev, file, flen) ;
	memset (&ri, 0, sizeof (ri)) ;
	sf = md_open (&dev, SFM_READ, &ri) ;
	if (! sf) { vl_violation (sig ("adpcm|%s|open-failed", cn [codec]), "harness-built file refused: %s", sf_strerror (NULL)) ; vl_end (1, 1) ; return ; }
	frames = (long) NB * spb ;
	if (ri.frames != frames || ri.channels != ch)
		vl_violation (sig ("adpcm|%s|header", cn [codec]), "frames %lld (expected %ld) channels %d", (long long) ri.frames, frames, ri.channels) ;
	memset (got, 0x55, sizeof (got)) ;
	{	sf_count_t r = vl_read (sf, T_SHORT, 1, got, frames) ;
		if (r != frames) vl_violation (sig ("adpcm|%s|short-read", cn [codec]), "read %lld of %ld frames", (long long) r, frames) ;
		}
	INLIB (sf_close (sf)) ;
	if (in_domain)
	{	for (int b = 0 ; b < NB ; b++)
		{	short *e = expect + (long) b * spb * ch ; int v ;
			if (codec == 0) v = ref_ima_wav_decode_block (blocks + b * bsz, bsz, ch, e, spb) ;
			else if (codec == 1) v = ref_ms_adpcm_decode_block (blocks + b * bsz, bsz, ch, ms_coeffs, 7, e, spb) ;
			else v = ref_ima_aiff_decode_block (blocks + b * bsz, ch, e) ;
			if (v < 0) { in_domain = 0 ; break ; }
			for (long i = 0 ; i < (long) v * ch ; i++)
				if (e [i] != got [(long) b * spb * ch + i] && bad ++ == 0)
					vl_violation (sig ("adpcm|%s|ch%d|value", cn [codec], ch), "block %d item %ld: library %d, reference decoder %d (blockalign %d, header combo %d, stream %d)",
						b, i, got [(long) b * spb * ch + i], e [i], blockalign, hdr, stream) ;
			valid_frames += v ;
			}
		}
	vl_count_extra (0, valid_frames * ch) ;
	vl_count_extra (1, in_domain ? 0 : 1) ;
	vl_end (1, vl_hash (got, frames * ch * 2, VL_H0)) ;
}

void run_c20 (void)
{	/* G.711 */
	for (int fi = 0 ; fi < fmt_count ; fi++)
	{	const Fmt *f = &fmt_list [fi] ; int sub = f->format & SF_FORMAT_SUBMASK, major = f->format & SF_FORMAT_TYPEMASK ;
		if (sub != SF_FORMAT_ULAW && sub != SF_FORMAT_ALAW) continue ;
		if ((f->format & SF_FORMAT_ENDMASK) != SF_ENDIAN_FILE) continue ;
		if (! vl_opts.thorough && major != SF_FORMAT_RAW && major != SF_FORMAT_WAV && major != SF_FORMAT_AU && major != SF_FORMAT_AIFF) continue ;
		if (vl_case ("C20 g711 fmt=%s", f->name)) { vl_root_count ("g711") ; g711_container (f, sub == SF_FORMAT_ALAW) ; }
		}
	for (int law = 0 ; law < 2 ; law++)
		if (vl_case ("C20 g711-corollaries law=%s", law ? "alaw" : "ulaw")) { vl_root_count ("g711") ; g711_corollaries (law) ; }

	/* IEEE serialisers */
	{	uint32_t flog = vl_opts.thorough ? 12 : 4, dlog = vl_opts.thorough ? 8 : 4 ;
		for (int big = 0 ; big < 2 ; big++)
			for (int dir = 0 ; dir < 2 ; dir++)
			{	for (uint32_t c = 0 ; c < (1u << flog) ; c++)
					if (vl_case ("C20 ieee float end=%s dir=%s chunk=%u/%u", big ? "be" : "le", dir ? "read" : "write", c, 1u << flog))
					{	vl_root_count ("ieee-float") ; ieee_chunk (0, big, dir, c, flog) ; }
				for (uint32_t c = 0 ; c < (1u << dlog) ; c++)
					if (vl_case ("C20 ieee double end=%s dir=%s chunk=%u/%u", big ? "be" : "le", dir ? "read" : "write", c, 1u << dlog))
					{	vl_root_count ("ieee-double") ; ieee_chunk (1, big, dir, c, dlog) ; }
				}
		}
	/* byte order helpers */
	if (vl_case ("C20 endswap 16")) { vl_root_count ("endswap") ; endswap_case (SF_FORMAT_PCM_16, 2, "16") ; }
	if (vl_case ("C20 endswap 32")) { vl_root_count ("endswap") ; endswap_case (SF_FORMAT_PCM_32, 4, "32") ; }
	if (vl_case ("C20 endswap 64")) { vl_root_count ("endswap") ; endswap_case (SF_FORMAT_DOUBLE, 8, "64") ; }

	/* ADPCM decoders */
	{	static const int aligns [4] = { 256, 512, 1024, 2048 } ;
		for (int codec = 0 ; codec < 3 ; codec++)
			for (int ch = 1 ; ch <= 2 ; ch++)
				for (int a = 0 ; a < (codec == 2 ? 1 : 4) ; a++)
				{	int nh = codec == 1 ? 8 * 8 * 4 : 30 ;
					for (int hdr = 0 ; hdr < nh ; hdr++)
						for (int st = 0 ; st < NSTREAMS ; st++)
						{	if (! vl_opts.thorough && codec == 1 && (hdr / 64) > 1 && st >= 23) continue ;
							if (vl_case ("C20 adpcm codec=%d ch=%d blockalign=%d hdr=%d stream=%d", codec, ch, aligns [a], hdr, st))
							{	vl_root_count (codec == 0 ? "adpcm-wav-ima" : codec == 1 ? "adpcm-wav-ms" : "adpcm-aifc-ima4") ;
								adpcm_case (codec, ch, aligns [a], hdr, st) ;
								}
							}
					}
		}
}
