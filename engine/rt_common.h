/* rt_common.h - helpers shared by the round-trip style harnesses */
#ifndef RT_COMMON_H
#define RT_COMMON_H
#include "vlib.h"

extern MemDev rt_dev ;
void rt_info (SF_INFO *info, const Fmt *f, int ch, int rate) ;
void rt_info_read (SF_INFO *info, const Fmt *f, int ch, int rate) ;
int  rt_accepts (const Fmt *f, int ch, int rate) ;
const char *rt_nclass (long N, int B) ;
const char *rt_sig (const char *fmt, ...) __attribute__ ((format (printf, 1, 2))) ;
void rt_put_i32 (void *buf, int type, long i, int32_t v, const Fmt *f) ;
long rt_first_diff (const void *a, const void *b, long items, int type) ;
const char *rt_fmt_item (const void *buf, int type, long i, int slot) ;
int  rt_len_alphabet (long *lens, int B, int staging_items, int ch, int thorough) ;
/* write N frames produced by generator g with type `type` in one call; returns handle state via out params */
int  rt_write_file (MemDev *md, const Fmt *f, int ch, int rate, int type, long N, int g) ;	/* 0 ok */
const char *rt_chclass (int ch) ;
const char *rt_fam (const Fmt *f) ;	/* "major/sub" without the endian option */
void rt_dump_log (SNDFILE *sf) ;
#endif
