/* h_peak.c - C18: PEAK data and the signal-max commands equal the true maxima. */
#include "vlib.h"
#include "rt_common.h"

const char *harness_name = "h_peak" ;

static MemDev dev ;

/* ---------------------------------------------------------------- PEAK chunk walker (independent of the library) */

static uint32_t be32 (const unsigned char *p) { return ((uint32_t) p [0] << 24) | (p [1] << 16) | (p [2] << 8) | p [3] ; }
static uint32_t le32 (const unsigned char *p) { return ((uint32_t) p [3] << 24) | (p [2] << 16) | (p [1] << 8) | p [0] ; }
static uint64_t be64 (const unsigned char *p) { return ((uint64_t) be32 (p) << 32) | be32 (p + 4) ; }

/* returns 1 and fills value/position per channel when the file has a PEAK chunk */
static int find_peak (const unsigned char *d, sf_count_t len, int major, int ch, float *value, uint64_t *pos)
{	sf_count_t off ; int big ;
	if (major == SF_FORMAT_CAF)
	{	off = 8 ;
		while (off + 12 <= len)
		{	uint64_t size = be64 (d + off + 4) ;
			if (memcmp (d + off, "peak", 4) == 0)
			{	const unsigned char *p = d + off + 12 + 4 ;
				for (int c = 0 ; c < ch ; c++, p += 12) { uint32_t u = be32 (p) ; memcpy (&value [c], &u, 4) ; pos [c] = be64 (p + 4) ; }
				return 1 ;
				}
			if (memcmp (d + off, "data", 4) == 0 && size > (uint64_t) len) break ;
			off += 12 + (sf_count_t) size ;
			}
		return 0 ;
		}
	big = (major == SF_FORMAT_AIFF) || (memcmp (d, "RIFX", 4) == 0) ;
	if (major == SF_FORMAT_RF64 || memcmp (d, "RF64", 4) == 0) big = 0 ;
	off = 12 ;
	while (off + 8 <= len)
	{	uint32_t size = big ? be32 (d + off + 4) : le32 (d + off + 4) ;
		if (memcmp (d + off, "PEAK", 4) == 0)
		{	const unsigned char *p = d + off + 8 + 8 ;
			for (int c = 0 ; c < ch ; c++, p += 8)
			{	uint32_t u = big ? be32 (p) : le32 (p) ; memcpy (&value [c], &u, 4) ; pos [c] = big ? be32 (p + 4) : le32 (p + 4) ; }
			return 1 ;
			}
		if (memcmp (d + off, "data", 4) == 0 && size == 0xFFFFFFFFu) { /* RF64 placeholder: real size from ds64 */ size = (uint32_t) (len - off - 8) ; }
		off += 8 + (sf_count_t) size + (size & 1) ;
		}
	return 0 ;
}

/* ---------------------------------------------------------------- PEAK cases */

typedef struct { int major ; const char *name ; int enable_cmd ; } PkFmt ;
static const PkFmt pkfmts [] = { { SF_FORMAT_WAV, "wav", 0 }, { SF_FORMAT_WAVEX, "wavex", 0 }, { SF_FORMAT_AIFF, "aiff", 0 }, { SF_FORMAT_CAF, "caf", 0 }, { SF_FORMAT_RF64, "rf64", 1 }, { 0, NULL, 0 } } ;

/* signal: small distinct base values, per-channel maximum M_c placed at frame place_c with the given sign; optional tie later */
static void build_signal (double *x, long N, int ch, const long *place, const int *neg, long tie_frame, int tie_ch)
{	for (long f = 0 ; f < N ; f++)
		for (int c = 0 ; c < ch ; c++)
			x [f * ch + c] = (((f * 7 + c * 3) % 13) + 1) / 128.0 * (((f + c) & 1) ? -1.0 : 1.0) ;
	for (int c = 0 ; c < ch ; c++)
		if (place [c] >= 0 && place [c] < N) x [place [c] * ch + c] = (0.5 + 0.0625 * (c + 1)) * (neg [c] ? -1.0 : 1.0) ;
	if (tie_frame >= 0 && tie_frame < N && tie_ch < ch && place [tie_ch] >= 0 && tie_frame > place [tie_ch])
		x [tie_frame * ch + tie_ch] = - x [place [tie_ch] * ch + tie_ch] ;	/* same magnitude, opposite sign, later: the first must win */
}

/* app: 0 none; otherwise the file is closed, re-opened SFM_RDWR and APP_K more frames are appended whose carrier-channel value at appended
** frame 1 is 1 = half, 2 = equal (the earlier occurrence must stay), 3 = 1.25 x the maximum written so far (the new one must win). */
#define APP_K 3
static void peak_case (const PkFmt *pf, int sub, int ch, int wtype, long N0, const long *place, const int *neg, long tie_frame, int tie_ch, const long *splits, int nsplit, int app)
{	long N = N0 + (app ? APP_K : 0) ;
	SF_INFO info ; SNDFILE *sf ; double *x = malloc (N * ch * sizeof (double)) ; void *w = malloc (N * ch * 8) ; char rs [64] ; int rc ; long done = 0 ;
	double emax [8] ; long epos [8] ; double overall = 0 ; uint64_t oh = VL_H0 ;
	snprintf (rs, sizeof (rs), "%s|%s/%s", app ? "peak-append" : "peak", pf->name, sub_name (sub)) ;
	build_signal (x, N0, ch, place, neg, tie_frame, tie_ch) ;
	if (app)
	{	static const double fac [4] = { 0, 0.5, 1.0, 1.25 } ;
		for (long f = N0 ; f < N ; f++) for (int c = 0 ; c < ch ; c++) x [f * ch + c] = ((f + c) % 5 + 1) / 256.0 * ((f & 1) ? -1.0 : 1.0) ;
		x [(N0 + 1) * ch + tie_ch] = - (0.5 + 0.0625 * (tie_ch + 1)) * fac [app] * (neg [tie_ch] ? -1.0 : 1.0) ;
		}
	/* reference maxima, computed on the values as they will be stored */
	for (long i = 0 ; i < N * ch ; i++)
	{	switch (wtype)
		{	case T_FLOAT : ((float *) w) [i] = (float) x [i] ; x [i] = ((float *) w) [i] ; break ;
			case T_DOUBLE : ((double *) w) [i] = x [i] ; if (sub == SF_FORMAT_FLOAT) x [i] = (float) x [i] ; break ;
			case T_SHORT : ((short *) w) [i] = (short) lrint (x [i] * 32768.0) ; x [i] = ((short *) w) [i] / 32768.0 ; break ;
			default : ((int *) w) [i] = (int) lrint (x [i] * 2147483648.0) ; x [i] = ((int *) w) [i] / 2147483648.0 ; if (sub == SF_FORMAT_FLOAT) x [i] = (float) x [i] ; break ;
			}
		}
	for (int c = 0 ; c < ch ; c++)
	{	emax [c] = -1 ; epos [c] = 0 ;
		for (long f = 0 ; f < N ; f++) if (fabs (x [f * ch + c]) > emax [c]) { emax [c] = fabs (x [f * ch + c]) ; epos [c] = f ; }
		if (emax [c] > overall) overall = emax [c] ;
		}
	md_reset (&dev) ; memset (&info, 0, sizeof (info)) ; info.format = pf->major | sub ; info.channels = ch ; info.samplerate = 44100 ;
	sf = md_open (&dev, SFM_WRITE, &info) ;
	if (! sf) { vl_note ("open refused") ; free (x) ; free (w) ; vl_end (0, 0) ; return ; }
	if (pf->enable_cmd) INLIB (sf_command (sf, SFC_SET_ADD_PEAK_CHUNK, NULL, SF_TRUE)) ;
	if (wtype == T_SHORT || wtype == T_INT) INLIB (sf_command (sf, SFC_SET_SCALE_INT_FLOAT_WRITE, NULL, SF_TRUE)) ;
	for (int s = 0 ; s <= nsplit ; s++)
	{	long end = s < nsplit ? splits [s] : N0, k ;
		if (end > N0) end = N0 ;
		k = end - done ;
		if (k <= 0) continue ;
		if (vl_write (sf, wtype, s & 1, (char *) w + done * ch * type_size [wtype], (s & 1) ? k : k * ch) != ((s & 1) ? k : k * ch)) vl_violation (rt_sig ("%s|write-failed", rs), "write failed") ;
		done = end ;
		}
	INLIB (rc = sf_close (sf)) ;
	if (rc) vl_violation (rt_sig ("%s|close-nonzero", rs), "close returned %d", rc) ;
	if (app)
	{	sf_count_t at ;
		md_rewind (&dev) ; memset (&info, 0, sizeof (info)) ;
		sf = md_open (&dev, SFM_RDWR, &info) ;
		if (! sf) { vl_note ("rdwr re-open refused") ; free (x) ; free (w) ; vl_end (0, 0) ; return ; }
		if (wtype == T_SHORT || wtype == T_INT) INLIB (sf_command (sf, SFC_SET_SCALE_INT_FLOAT_WRITE, NULL, SF_TRUE)) ;
		INLIB (at = sf_seek (sf, 0, SEEK_END | SFM_WRITE)) ;
		if (at != N0) vl_violation (rt_sig ("%s|append-seek", rs), "write seek to the end returned %lld, file has %ld frames", (long long) at, N0) ;
		else if (vl_write (sf, wtype, 1, (char *) w + N0 * ch * type_size [wtype], APP_K) != APP_K) vl_violation (rt_sig ("%s|append-write-failed", rs), "append failed") ;
		INLIB (rc = sf_close (sf)) ;
		if (rc) vl_violation (rt_sig ("%s|append-close-nonzero", rs), "close returned %d", rc) ;
		}
	/* the chunk as stored */
	{	float pv [8] ; uint64_t pp [8] ;
		if (! find_peak (dev.data, dev.len, pf->major, ch, pv, pp)) vl_violation (rt_sig ("%s|no-peak-chunk", rs), "no PEAK chunk in the written file") ;
		else
			for (int c = 0 ; c < ch ; c++)
			{	if ((double) pv [c] != (double) (float) emax [c])
					vl_violation (rt_sig ("%s|chunk-value", rs), "channel %d: PEAK value %.9g, true maximum %.9g (N=%ld)", c, pv [c], emax [c], N) ;
				else if ((long) pp [c] != epos [c])
					vl_violation (rt_sig ("%s|chunk-position", rs), "channel %d: PEAK position %llu, first occurrence of the maximum is frame %ld (N=%ld)", c, (unsigned long long) pp [c], epos [c], N) ;
				oh = vl_hash_u64 (pp [c], oh) ;
				}
		}
	md_rewind (&dev) ; memset (&info, 0, sizeof (info)) ;
	sf = md_open (&dev, SFM_READ, &info) ;
	if (! sf) vl_violation (rt_sig ("%s|reopen-failed", rs), "%s", sf_strerror (NULL)) ;
	else
	{	double smax = -1, peaks [8] ; int r1, r2 ;
		INLIB (r1 = sf_command (sf, SFC_GET_SIGNAL_MAX, &smax, sizeof (smax))) ;
		INLIB (r2 = sf_command (sf, SFC_GET_MAX_ALL_CHANNELS, peaks, ch * sizeof (double))) ;
		if (! r1 || ! r2) vl_violation (rt_sig ("%s|get-max-failed", rs), "SFC_GET_SIGNAL_MAX -> %d, SFC_GET_MAX_ALL_CHANNELS -> %d", r1, r2) ;
		else
		{	if (smax != (double) (float) overall) vl_violation (rt_sig ("%s|get-signal-max", rs), "SFC_GET_SIGNAL_MAX %.9g, true maximum %.9g", smax, overall) ;
			for (int c = 0 ; c < ch ; c++)
				if (peaks [c] != (double) (float) emax [c]) { vl_violation (rt_sig ("%s|get-max-all-channels", rs), "channel %d: %.9g, true maximum %.9g", c, peaks [c], emax [c]) ; break ; }
			}
		INLIB (sf_close (sf)) ;
		}
	free (x) ; free (w) ;
	vl_end (1, oh) ;
}

static void run_peak (void)
{	static const int subs [2] = { SF_FORMAT_FLOAT, SF_FORMAT_DOUBLE } ; static const int wtypes [4] = { T_FLOAT, T_DOUBLE, T_SHORT, T_INT } ;
	for (const PkFmt *pf = pkfmts ; pf->name ; pf++)
		for (int si = 0 ; si < 2 ; si++)
			for (int ch = 1 ; ch <= 3 ; ch++)
				for (int wi = 0 ; wi < 4 ; wi++)
				{	int wtype = wtypes [wi] ; long S = 8192 / (wtype == T_DOUBLE || subs [si] == SF_FORMAT_DOUBLE ? 8 : 4) / ch ;
					long Ns [5] = { 1, 2, S - 1, S + 1, 2 * S + 3 } ;
					int full = vl_opts.thorough ? 1 : ((pf->major == SF_FORMAT_WAV && si == 0 && ch == 2 && wi == 0) || (wi < 2 && ch == 2) || (pf->major == SF_FORMAT_AIFF && wi == si)) ;
					for (int ni = 0 ; ni < 5 ; ni++)
					{	long N = Ns [ni], pl [6] = { 0, 1, S - 1, S, S + 1, N - 1 } ;
						for (int pi = 0 ; pi < 6 ; pi++)
						{	if (pl [pi] < 0 || pl [pi] >= N) continue ;
							if (pi > 0 && pl [pi] == pl [pi - 1]) continue ;
							for (int carrier = 0 ; carrier < ch ; carrier++)
								for (int neg = 0 ; neg < 2 ; neg++)
									for (int tie = 0 ; tie < 2 ; tie++)
									{	long place [8], splits_set [6] = { 1, S - 1, S, S + 1, pl [pi], pl [pi] + 1 }, tie_frame = tie ? (pl [pi] + 1 < N ? N - 1 : -1) : -1 ; int negs [8] ;
										if (tie && (tie_frame <= pl [pi])) continue ;
										if (! full && (neg != (pi & 1) || (wi > 1 && ni != 3))) continue ;
										for (int c = 0 ; c < ch ; c++) { place [c] = c == carrier ? pl [pi] : (pl [pi] + 3 + c) % N ; negs [c] = c == carrier ? neg : ! neg ; }
										/* partitions: none; each single split; (full) all pairs */
										if (vl_case ("C18 peak fmt=%s/%s ch=%d wtype=%s N=%ld place=%ld carrier=%d neg=%d tie=%d splits=-", pf->name, sub_name (subs [si]), ch, type_names [wtype], N, pl [pi], carrier, neg, tie))
										{	vl_root_count (pf->name) ; peak_case (pf, subs [si], ch, wtype, N, place, negs, tie_frame, carrier, NULL, 0, 0) ; }
										/* non-initial state: the same file re-opened for read/write and extended */
										for (int app = 1 ; app <= 3 ; app++)
										{	if (! full && ni != 1 && ni != 3) continue ;
											if (vl_case ("C18 peak-append fmt=%s/%s ch=%d wtype=%s N=%ld place=%ld carrier=%d neg=%d tie=%d app=%d", pf->name, sub_name (subs [si]), ch, type_names [wtype], N, pl [pi], carrier, neg, tie, app))
											{	vl_root_count (pf->name) ; peak_case (pf, subs [si], ch, wtype, N, place, negs, tie_frame, carrier, NULL, 0, app) ; }
											}
										for (int a = 0 ; a < 6 ; a++)
										{	if (splits_set [a] <= 0 || splits_set [a] >= N) continue ;
											if (! full && a != 4 && a != 5 && a != 2) continue ;
											if (vl_case ("C18 peak fmt=%s/%s ch=%d wtype=%s N=%ld place=%ld carrier=%d neg=%d tie=%d splits=%ld", pf->name, sub_name (subs [si]), ch, type_names [wtype], N, pl [pi], carrier, neg, tie, splits_set [a]))
											{	long sp [1] = { splits_set [a] } ; vl_root_count (pf->name) ; peak_case (pf, subs [si], ch, wtype, N, place, negs, tie_frame, carrier, sp, 1, 0) ; }
											if (! full) continue ;
											for (int b = 0 ; b < 6 ; b++)
											{	if (splits_set [b] <= splits_set [a] || splits_set [b] >= N) continue ;
												if (vl_case ("C18 peak fmt=%s/%s ch=%d wtype=%s N=%ld place=%ld carrier=%d neg=%d tie=%d splits=%ld,%ld", pf->name, sub_name (subs [si]), ch, type_names [wtype], N, pl [pi], carrier, neg, tie, splits_set [a], splits_set [b]))
												{	long sp [2] = { splits_set [a], splits_set [b] } ; vl_root_count (pf->name) ; peak_case (pf, subs [si], ch, wtype, N, place, negs, tie_frame, carrier, sp, 2, 0) ; }
												}
											}
										}
							}
						}
					}
}

/* ---------------------------------------------------------------- CALC commands */

static void calc_case (const Fmt *f, int ch, int rdwr)
{	SF_INFO info ; SNDFILE *sf ; int rate = fmt_default_rate (f), B = fmt_block (f, ch, rate) ; long N = B > 1 ? 2 * B + 7 : 300, F ; char rs [64] ;
	short *w ; unsigned char *bytes ; sf_count_t len ; double *all, tmax [2] = { 0, 0 }, cmax [2][8] ; uint64_t oh = VL_H0 ;
	snprintf (rs, sizeof (rs), "calc|%s", rt_fam (f)) ;
	md_reset (&dev) ; rt_info (&info, f, ch, rate) ; sf = md_open (&dev, SFM_WRITE, &info) ;
	if (! sf) { vl_end (0, 0) ; return ; }
	w = malloc (N * ch * 2) ;
	for (long i = 0 ; i < N * ch ; i++) w [i] = (short) ((((i / ch) * 29 + (i % ch) * 7) % 199 - 99) * 150 + ((i / ch) == N / 3 && (i % ch) == ch - 1 ? 12000 : 0)) ;
	vl_write (sf, T_SHORT, 1, w, N) ; INLIB (sf_close (sf)) ; free (w) ;
	len = dev.len ; bytes = malloc (len + 1) ; memcpy (bytes, dev.data, len) ;
	/* reference: full decode under each normalisation */
	md_set (&dev, bytes, len) ; rt_info_read (&info, f, ch, rate) ; sf = md_open (&dev, SFM_READ, &info) ;
	if (! sf) { vl_violation (rt_sig ("%s|reopen-failed", rs), "%s", sf_strerror (NULL)) ; free (bytes) ; vl_end (1, 0) ; return ; }
	F = info.frames ; all = calloc ((F + 8) * ch, sizeof (double)) ;
	if (! info.seekable) { INLIB (sf_close (sf)) ; free (bytes) ; free (all) ; vl_note ("not seekable") ; vl_end (0, 0) ; return ; }
	for (int norm = 0 ; norm < 2 ; norm++)
	{	sf_count_t r ; INLIB (sf_seek (sf, 0, SEEK_SET)) ; INLIB (sf_command (sf, SFC_SET_NORM_DOUBLE, NULL, norm)) ;
		r = vl_read (sf, T_DOUBLE, 1, all, F) ;
		for (int c = 0 ; c < ch ; c++) cmax [norm][c] = 0 ;
		for (long i = 0 ; i < r * ch ; i++) { double a = fabs (all [i]) ; if (a > tmax [norm]) tmax [norm] = a ; if (a > cmax [norm][i % ch]) cmax [norm][i % ch] = a ; }
		}
	INLIB (sf_close (sf)) ; free (all) ;
	/* the commands, at every position, with both prior normalisation settings */
	{	long poss [5] = { 0, 1, B > 1 ? B : 5, F - 1, F } ;
		for (int pi = 0 ; pi < 5 ; pi++)
			for (int prior = 0 ; prior < 2 ; prior++)
			{	long p = poss [pi] ; sf_count_t rp, wp0 = 0 ; double v ; double pc [8] ; int nd ;
				static const int cmds [4] = { SFC_CALC_SIGNAL_MAX, SFC_CALC_NORM_SIGNAL_MAX, SFC_CALC_MAX_ALL_CHANNELS, SFC_CALC_NORM_MAX_ALL_CHANNELS } ;
				static const char *cn [4] = { "CALC_SIGNAL_MAX", "CALC_NORM_SIGNAL_MAX", "CALC_MAX_ALL_CHANNELS", "CALC_NORM_MAX_ALL_CHANNELS" } ;
				if (p < 0 || p > F) continue ;
				md_set (&dev, bytes, len) ; rt_info_read (&info, f, ch, rate) ; sf = md_open (&dev, rdwr ? SFM_RDWR : SFM_READ, &info) ;
				if (! sf) { if (rdwr) break ; vl_violation (rt_sig ("%s|reopen-failed", rs), "%s", sf_strerror (NULL)) ; break ; }
				INLIB (sf_command (sf, SFC_SET_NORM_DOUBLE, NULL, prior)) ;
				INLIB (rp = sf_seek (sf, p, SEEK_SET | (rdwr ? SFM_READ : 0))) ;
				if (rp != p) { INLIB (sf_close (sf)) ; continue ; }	/* codec cannot seek there */
				if (rdwr) INLIB (wp0 = sf_seek (sf, 0, SEEK_CUR | SFM_WRITE)) ;
				for (int k = 0 ; k < 4 ; k++)
				{	int r, norm = k & 1 ; PeekState pk ;
					if (k < 2) { v = -1 ; INLIB (r = sf_command (sf, cmds [k], &v, sizeof (v))) ; if (v != tmax [norm]) vl_violation (rt_sig ("%s|%s|value", rs, cn [k]), "at frame %ld: %.12g, true maximum %.12g", p, v, tmax [norm]) ; }
					else
					{	INLIB (r = sf_command (sf, cmds [k], pc, ch * sizeof (double))) ;
						for (int c = 0 ; c < ch ; c++) if (pc [c] != cmax [norm][c]) { vl_violation (rt_sig ("%s|%s|value", rs, cn [k]), "at frame %ld channel %d: %.12g, true maximum %.12g", p, c, pc [c], cmax [norm][c]) ; break ; }
						}
					(void) r ;
					pk_get (sf, &pk, 0) ;
					if (pk.read_current != p) vl_violation (rt_sig ("%s|%s|read-position-moved", rs, cn [k]), "read position %lld after the call, was %ld%s", (long long) pk.read_current, p, rdwr ? " (rdwr)" : "") ;
					if (rdwr && pk.write_current != wp0) vl_violation (rt_sig ("%s|%s|write-position-moved", rs, cn [k]), "write position %lld after the call, was %lld", (long long) pk.write_current, (long long) wp0) ;
					INLIB (nd = sf_command (sf, SFC_GET_NORM_DOUBLE, NULL, 0)) ;
					if (nd != prior) vl_violation (rt_sig ("%s|%s|norm-setting-changed", rs, cn [k]), "SFC_GET_NORM_DOUBLE %d after the call, was %d", nd, prior) ;
					oh = vl_hash_u64 (k, oh) ;
					}
				/* the next read still delivers frame p */
				if (p < F)
				{	double one [8], ref [8] ; SNDFILE *s2 ; SF_INFO i2 ; MemDev d2 ; sf_count_t r = vl_read (sf, T_DOUBLE, 1, one, 1) ;
					md_init (&d2) ; md_set (&d2, bytes, len) ; rt_info_read (&i2, f, ch, rate) ; s2 = md_open (&d2, SFM_READ, &i2) ;
					if (s2)
					{	sf_count_t r2 ; INLIB (sf_command (s2, SFC_SET_NORM_DOUBLE, NULL, prior)) ; INLIB (sf_seek (s2, p, SEEK_SET)) ; r2 = vl_read (s2, T_DOUBLE, 1, ref, 1) ; INLIB (sf_close (s2)) ;
						if (r != r2 || memcmp (one, ref, ch * sizeof (double)) != 0) vl_violation (rt_sig ("%s|data-after-calc", rs), "frame read at %ld after the CALC commands differs from a fresh handle's", p) ;
						}
					md_free (&d2) ;
					}
				INLIB (sf_close (sf)) ;
				}
		}
	free (bytes) ;
	vl_end (1, oh) ;
}

static void run_calc (void)
{	for (int fi = 0 ; fi < fmt_count ; fi++)
	{	const Fmt *f = &fmt_list [fi] ;
		if (f->needs_path || (f->format & SF_FORMAT_ENDMASK) == SF_ENDIAN_CPU) continue ;
		if (! vl_opts.thorough && (f->format & SF_FORMAT_ENDMASK) == SF_ENDIAN_LITTLE) continue ;
		for (int ch = 1 ; ch <= 3 ; ch += (vl_opts.thorough ? 1 : 2))
			for (int rdwr = 0 ; rdwr < 2 ; rdwr++)
			{	if (! rt_accepts (f, ch, fmt_default_rate (f))) continue ;
				if (rdwr && ! f->gran) continue ;
				if (vl_case ("C18 calc fmt=%s ch=%d mode=%s", f->name, ch, rdwr ? "rdwr" : "read"))
				{	vl_root_count ("calc") ; calc_case (f, ch, rdwr) ; }
				}
		}
}

void harness_run (void)
{	fmt_build () ; md_init (&dev) ;
	run_peak () ;
	run_calc () ;
}
