#!/bin/sh
# usage: trymut.sh <patch.diff> <Cxx> [Cyy ...]   -- apply a seeded change to /repo, run the quick checks, undo it.
P="$1"; shift
git -C /repo apply "$P" || { echo "patch does not apply"; exit 9; }
for c in "$@"; do
  /verif/check "$c" --tier quick > /tmp/trymut-$c.log 2>&1; rc=$?
  echo "== $c exit=$rc: $(grep -c '^VIOLATION' /tmp/trymut-$c.log) violation lines"; grep -A3 '^VIOLATION' /tmp/trymut-$c.log | grep -E 'signature|case|detail' | head -9
  tail -1 /tmp/trymut-$c.log | cut -c1-200
done
git -C /repo checkout -- . ; git -C /repo status --short | head -3
