#!/bin/sh
# usage: trymut.sh <patch.diff> <Cxx> [Cyy ...]
# Maintenance tool (not a registered check): apply a seeded change to a scratch worktree of /repo's HEAD, build that copy
# into a scratch build directory and run the quick checks against it; /repo, /verif/build, evidence and replays are untouched.
P="$(readlink -f "$1")"; shift
W=/tmp/trymut-$$; rm -rf "$W"; mkdir -p "$W"
git -C /repo worktree add --detach "$W/repo" HEAD >/dev/null 2>&1 || { echo "worktree failed"; exit 9; }
git -C "$W/repo" apply "$P" || { echo "patch does not apply"; git -C /repo worktree remove --force "$W/repo"; rm -rf "$W"; exit 9; }
for c in "$@"; do
  VERIF_REPO="$W/repo" VERIF_BUILD="$W/build" VERIF_OUT="$W/out" /verif/check "$c" --tier quick > "$W/$c.log" 2>&1; rc=$?
  echo "== $c exit=$rc: $(grep -c '^VIOLATION' "$W/$c.log") violation lines"; grep -A3 '^VIOLATION' "$W/$c.log" | grep -E 'signature|case|detail' | head -9
  tail -1 "$W/$c.log" | cut -c1-200
  [ $rc -ge 2 ] && grep -E 'ENGINE|engine|died|nondeterministic|Traceback' "$W/$c.log" | head -5
done
git -C /repo worktree remove --force "$W/repo"; rm -rf "$W"
