#!/bin/sh
# Build the library variants and all harnesses once (offline, from files on disk only).
set -e
cd "$(dirname "$0")"
python3 engine/build.py lib asan
python3 engine/build.py lib fast
for h in $(python3 -c "import sys; sys.path.insert(0,'engine'); from props import PROPS; print(' '.join(sorted({(v+':'+p['harness']) for p in PROPS.values() for v in p.get('variants',['asan'])})))"); do
  python3 engine/build.py harness "${h%%:*}" "${h##*:}"
done
echo setup done
